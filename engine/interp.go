package main

// Symbolic SSA interpreter: one Interp per run (re-execution forking), values are SMT terms.

import (
	"fmt"
	"go/constant"
	"go/token"
	"go/types"
	"path/filepath"
	"strings"
	"sync"

	"golang.org/x/tools/go/ssa"
)

// Program is the immutable, shared part: SSA program and caches.
type Program struct {
	ssa      *ssa.Program
	fset     *token.FileSet
	pkgs     map[string]*ssa.Package // by path
	fnInfo   sync.Map                // *ssa.Function -> *fnInfo
	repoMod  string                  // module path prefix of the code under test
	rtErrStr types.Type              // runtime.errorString
	errorT   types.Type
	initPkgs []*ssa.Package // repo packages whose init is executed per run (dependency order)
	nameMu   sync.Mutex
	fnNames  map[*ssa.Function]string
}

func (p *Program) fnName(fn *ssa.Function) string {
	p.nameMu.Lock()
	defer p.nameMu.Unlock()
	if s, ok := p.fnNames[fn]; ok {
		return s
	}
	s := fn.String()
	p.fnNames[fn] = s
	return s
}

type fnInfo struct {
	idx      map[ssa.Value]int
	n        int
	firstNon []int // per block: index of first non-phi instruction
	isRT     bool  // declared in zz_verif_rt.go
	intr     intrinsic
	intrSet  bool
	inRepo   bool
	posStr   string
}

func (p *Program) info(fn *ssa.Function) *fnInfo {
	if v, ok := p.fnInfo.Load(fn); ok {
		return v.(*fnInfo)
	}
	fi := &fnInfo{idx: map[ssa.Value]int{}}
	add := func(v ssa.Value) {
		fi.idx[v] = fi.n
		fi.n++
	}
	for _, x := range fn.Params {
		add(x)
	}
	for _, x := range fn.FreeVars {
		add(x)
	}
	for _, b := range fn.Blocks {
		first := len(b.Instrs)
		for i, ins := range b.Instrs {
			if _, ok := ins.(*ssa.Phi); !ok && i < first {
				first = i
			}
			if v, ok := ins.(ssa.Value); ok {
				add(v)
			}
		}
		fi.firstNon = append(fi.firstNon, first)
	}
	if fn.Pos().IsValid() {
		pos := p.fset.Position(fn.Pos())
		fi.posStr = fmt.Sprintf("%s:%d", pos.Filename, pos.Line)
		if filepath.Base(pos.Filename) == "zz_verif_rt.go" {
			fi.isRT = true
		}
	}
	if fn.Pkg != nil && strings.HasPrefix(fn.Pkg.Pkg.Path(), p.repoMod) {
		fi.inRepo = true
	} else if o := fn.Origin(); o != nil && o.Pkg != nil && strings.HasPrefix(o.Pkg.Pkg.Path(), p.repoMod) {
		fi.inRepo = true
	}
	v, _ := p.fnInfo.LoadOrStore(fn, fi)
	return v.(*fnInfo)
}

type deferred struct {
	fn   Value
	args []Value
	pos  token.Pos
	tail *deferred
}

// deferStack is the value of ssa:deferstack (pointer to a frame's defer list).
type deferStack struct{ fr *frame }

type frame struct {
	in        *Interp
	caller    *frame
	fn        *ssa.Function
	fi        *fnInfo
	env       []Value
	block     *ssa.BasicBlock
	prev      *ssa.BasicBlock
	defers    *deferred
	result    Value
	panicking bool
	panicV    interface{}
	symVisits map[*ssa.BasicBlock]int
	thread    *Thread
	curPos    token.Pos
}

// targetPanic is a Go-level panic in the interpreted program.
type targetPanic struct {
	v   Value // interface value
	msg string
}

// abortRun ends the current run (path) for an engine-level reason.
type abortRun struct {
	kind string // "infeasible", "assume", "unwind", "steps", "unsupported", "stop", "deadlock", "internal"
	msg  string
}

type Interp struct {
	P       *Program
	tb      *TB
	sv      *Solver
	run     *Run
	globals map[*ssa.Global]*Cell
	nextObj int
	steps   int
	nondetN int

	threads []*Thread
	cur     *Thread
	par     bool // inside a parallel section (scheduling decisions active)
	sched   schedState

	mutexes   map[*Cell]*mutexState
	wgs       map[*Cell]*wgState
	onces     map[*Cell]*onceState
	conds     map[*Cell]*condState
	pools     map[*Cell]*poolState
	hashMemo  map[string]*Term
	gobQueues map[*Cell]*[]Value
	strBuilders map[*Cell]*strings.Builder
	nextMap   int
	nextSeed  int
	mapOrder  int
	funcsSeen map[*ssa.Function]bool
	aborted   bool
	race      *raceReport
	raceOn    bool
	hostLog   []string
	schedRec   bool      // record the order of visible operations (native schedule replay)
	schedTrace []SchedEv
	nsrNext    int
	ext       map[string]interface{}
}

func (in *Interp) curThreadID() int {
	if in.cur == nil {
		return 0
	}
	return in.cur.id
}

func (in *Interp) abort(kind, format string, a ...interface{}) {
	panic(abortRun{kind: kind, msg: fmt.Sprintf(format, a...)})
}

func (in *Interp) unsupported(format string, a ...interface{}) {
	panic(abortRun{kind: "unsupported", msg: fmt.Sprintf(format, a...) + " at " + in.where()})
}

func (in *Interp) where() string {
	if in.cur == nil || in.cur.top == nil {
		return "?"
	}
	var parts []string
	n := 0
	for fr := in.cur.top; fr != nil && n < 6; fr = fr.caller {
		parts = append(parts, fmt.Sprintf("%s(%s)", fr.fn.Name(), in.P.fset.Position(fr.curPos)))
		n++
	}
	return strings.Join(parts, " <- ")
}

func (in *Interp) posOf(fr *frame) string {
	p := in.P.fset.Position(fr.curPos)
	return fmt.Sprintf("%s:%d", filepath.Base(p.Filename), p.Line)
}

// ---------- constants ----------

func (in *Interp) constValue(c *ssa.Const) Value {
	t := c.Type()
	if c.Value == nil {
		return in.zero(t)
	}
	if tp, ok := t.(*types.TypeParam); ok {
		_ = tp
		in.unsupported("const of type param")
	}
	switch u := t.Underlying().(type) {
	case *types.Basic:
		switch {
		case u.Info()&types.IsBoolean != 0:
			return in.tb.Bool(constant.BoolVal(c.Value))
		case u.Info()&types.IsInteger != 0:
			w := widthOf(u)
			if u.Info()&types.IsUnsigned != 0 {
				v, _ := constant.Uint64Val(constant.ToInt(c.Value))
				return in.tb.Const(w, v)
			}
			v, ok := constant.Int64Val(constant.ToInt(c.Value))
			if !ok {
				uv, _ := constant.Uint64Val(constant.ToInt(c.Value))
				return in.tb.Const(w, uv)
			}
			return in.tb.Const(w, uint64(v))
		case u.Info()&types.IsFloat != 0:
			f, _ := constant.Float64Val(c.Value)
			return f
		case u.Info()&types.IsString != 0:
			if c.Value.Kind() == constant.String {
				return constant.StringVal(c.Value)
			}
			// rune-to-string constant conversions
			v, _ := constant.Int64Val(c.Value)
			return string(rune(v))
		}
	}
	in.unsupported("constant %s of type %s", c, t)
	return nil
}

func (fr *frame) get(v ssa.Value) Value {
	switch k := v.(type) {
	case nil:
		return nil
	case *ssa.Const:
		return fr.in.constValue(k)
	case *ssa.Global:
		return fr.in.ptrTo(fr.in.global(k))
	case *ssa.Function:
		return &FuncV{fn: k}
	case *ssa.Builtin:
		return &FuncV{bi: k}
	}
	i, ok := fr.fi.idx[v]
	if !ok {
		panic(fmt.Sprintf("get: no slot for %T %s in %s", v, v.Name(), fr.fn))
	}
	r := fr.env[i]
	if r == nil {
		panic(fmt.Sprintf("get: unset value %s in %s", v.Name(), fr.fn))
	}
	return r
}

func (fr *frame) set(v ssa.Value, x Value) {
	fr.env[fr.fi.idx[v]] = x
}

func (in *Interp) global(g *ssa.Global) *Cell {
	if c, ok := in.globals[g]; ok {
		return c
	}
	c := in.alloc(deref(g.Type()), "global:"+g.Name())
	c.obj.escaped = true
	in.globals[g] = c
	return c
}

func deref(t types.Type) types.Type {
	if p, ok := t.Underlying().(*types.Pointer); ok {
		return p.Elem()
	}
	panic("deref of non-pointer " + t.String())
}

// ---------- calls ----------

func (in *Interp) call(caller *frame, pos token.Pos, fnv Value, args []Value) Value {
	f, ok := fnv.(*FuncV)
	if !ok || f.isNil() {
		in.runtimePanic("call of nil function")
	}
	switch {
	case f.native != nil:
		return f.native(in, args)
	case f.bi != nil:
		return in.callBuiltin(caller, f.bi, args, pos)
	}
	return in.callSSA(caller, pos, f.fn, args, f.env)
}

func (in *Interp) callSSA(caller *frame, pos token.Pos, fn *ssa.Function, args []Value, env []Value) Value {
	fi := in.P.info(fn)
	if !fi.intrSet {
		fi.intr = lookupIntrinsic(in.P, fn, fi)
		fi.intrSet = true
	}
	if fi.intr != nil {
		return fi.intr(in, caller, fn, args)
	}
	if fn.Blocks == nil {
		in.unsupported("no code for function %s", in.P.fnName(fn))
	}
	if fn.TypeParams().Len() > 0 && len(fn.TypeArgs()) == 0 {
		in.unsupported("uninstantiated generic %s", in.P.fnName(fn))
	}
	if !in.funcsSeen[fn] {
		in.funcsSeen[fn] = true
	}
	fr := &frame{in: in, caller: caller, fn: fn, fi: fi, thread: in.cur}
	fr.env = make([]Value, fi.n)
	n := 0
	for range fn.Params {
		fr.env[n] = args[n]
		n++
	}
	for i := range fn.FreeVars {
		fr.env[n] = env[i]
		n++
	}
	fr.block = fn.Blocks[0]
	depth := 0
	for f := caller; f != nil; f = f.caller {
		depth++
	}
	if depth > in.run.job.B.MaxDepth {
		in.abort("unsupported", "call depth %d exceeded in %s", depth, fn)
	}
	saved := in.cur.top
	in.cur.top = fr
	for fr.block != nil {
		in.runFrame(fr)
	}
	in.cur.top = saved
	return fr.result
}

func (in *Interp) runFrame(fr *frame) {
	defer func() {
		if fr.block == nil {
			return // normal return
		}
		r := recover()
		if _, ok := r.(targetPanic); !ok {
			panic(r) // engine abort or internal error: propagate
		}
		fr.panicking = true
		fr.panicV = r
		in.cur.top = fr
		fr.runDefers()
		fr.block = fr.fn.Recover
		if fr.block == nil {
			// recovered, no named results: return zero values
			fr.result = in.zeroResults(fr.fn)
		}
	}()
	for {
		b := fr.block
		first := fr.fi.firstNon[b.Index]
		if first > 0 {
			pi := -1
			for i, p := range b.Preds {
				if p == fr.prev {
					pi = i
					break
				}
			}
			tmp := make([]Value, first)
			for i := 0; i < first; i++ {
				tmp[i] = fr.get(b.Instrs[i].(*ssa.Phi).Edges[pi])
			}
			for i := 0; i < first; i++ {
				fr.set(b.Instrs[i].(*ssa.Phi), tmp[i])
			}
		}
		for _, ins := range b.Instrs[first:] {
			in.steps++
			if in.steps > in.run.job.B.MaxSteps {
				in.abort("steps", "step limit %d exceeded", in.run.job.B.MaxSteps)
			}
			if p := ins.Pos(); p.IsValid() {
				fr.curPos = p
			}
			if in.visit(fr, ins) == kReturn {
				return
			}
		}
	}
}

func (in *Interp) zeroResults(fn *ssa.Function) Value {
	res := fn.Signature.Results()
	switch res.Len() {
	case 0:
		return nil
	case 1:
		return in.zero(res.At(0).Type())
	}
	return in.zero(res)
}

func (fr *frame) runDefer(d *deferred) {
	ok := false
	defer func() {
		if !ok {
			r := recover()
			if _, is := r.(targetPanic); !is {
				panic(r)
			}
			fr.panicking = true
			fr.panicV = r
		}
	}()
	fr.in.cur.top = fr
	fr.in.call(fr, d.pos, d.fn, d.args)
	ok = true
}

func (fr *frame) runDefers() {
	for fr.defers != nil {
		d := fr.defers
		fr.defers = d.tail
		fr.runDefer(d)
	}
	if fr.panicking {
		panic(fr.panicV)
	}
}

func (in *Interp) doRecover(caller *frame) Value {
	if caller != nil && !caller.panicking && caller.caller != nil && caller.caller.panicking {
		caller.caller.panicking = false
		p := caller.caller.panicV
		caller.caller.panicV = nil
		if tp, ok := p.(targetPanic); ok {
			return tp.v
		}
		panic(p)
	}
	return &IfaceV{}
}

// runtimePanic raises a Go runtime panic (nil dereference, index out of range, ...).
func (in *Interp) runtimePanic(msg string) {
	full := "runtime error: " + msg
	in.run.notePanic(in, full)
	panic(targetPanic{v: &IfaceV{t: in.P.rtErrStr, v: full}, msg: full})
}

type continuation int

const (
	kNext continuation = iota
	kReturn
	kJump
)

func (in *Interp) prepareCall(fr *frame, cc *ssa.CallCommon) (Value, []Value) {
	v := fr.get(cc.Value)
	var fn Value
	var args []Value
	if cc.Method == nil {
		fn = v
	} else {
		recv := v.(*IfaceV)
		if recv.t == nil {
			in.runtimePanic("method " + cc.Method.Name() + " invoked on nil interface")
		}
		f := in.P.ssa.LookupMethod(recv.t, cc.Method.Pkg(), cc.Method.Name())
		if f == nil {
			in.unsupported("method %s not found for dynamic type %s", cc.Method.Name(), recv.t)
		}
		fn = &FuncV{fn: f}
		args = append(args, recv.v)
	}
	for _, a := range cc.Args {
		args = append(args, fr.get(a))
	}
	return fn, args
}

func (in *Interp) visit(fr *frame, instr ssa.Instruction) continuation {
	switch ins := instr.(type) {
	case *ssa.DebugRef:
	case *ssa.UnOp:
		fr.set(ins, in.unop(fr, ins, fr.get(ins.X)))
	case *ssa.BinOp:
		fr.set(ins, in.binop(ins.Op, ins.X.Type(), fr.get(ins.X), fr.get(ins.Y)))
	case *ssa.Call:
		fn, args := in.prepareCall(fr, &ins.Call)
		r := in.call(fr, ins.Pos(), fn, args)
		in.cur.top = fr
		if r == nil {
			r = TupleV(nil)
		}
		fr.set(ins, r)
	case *ssa.ChangeInterface:
		fr.set(ins, fr.get(ins.X))
	case *ssa.ChangeType:
		fr.set(ins, fr.get(ins.X))
	case *ssa.Convert:
		fr.set(ins, in.convert(ins.Type(), ins.X.Type(), fr.get(ins.X)))
	case *ssa.MultiConvert:
		fr.set(ins, in.convert(ins.Type(), ins.X.Type(), fr.get(ins.X)))
	case *ssa.SliceToArrayPointer:
		s := fr.get(ins.X).(*SliceV)
		n := int(deref(ins.Type()).Underlying().(*types.Array).Len())
		if s.len < n {
			in.runtimePanic("slice to array pointer: length too short")
		}
		if s.arr == nil {
			fr.set(ins, in.nilPtr())
		} else if s.off == 0 && len(s.arr.kids) == n {
			fr.set(ins, in.ptrTo(s.arr))
		} else {
			in.unsupported("SliceToArrayPointer on sub-slice")
		}
	case *ssa.MakeInterface:
		fr.set(ins, &IfaceV{t: ins.X.Type(), v: fr.get(ins.X)})
	case *ssa.Extract:
		fr.set(ins, fr.get(ins.Tuple).(TupleV)[ins.Index])
	case *ssa.Slice:
		fr.set(ins, in.sliceOp(fr, ins))
	case *ssa.Return:
		switch len(ins.Results) {
		case 0:
		case 1:
			fr.result = fr.get(ins.Results[0])
		default:
			res := make(TupleV, len(ins.Results))
			for i, r := range ins.Results {
				res[i] = fr.get(r)
			}
			fr.result = res
		}
		fr.block = nil
		return kReturn
	case *ssa.RunDefers:
		fr.runDefers()
		in.cur.top = fr
	case *ssa.Panic:
		v := fr.get(ins.X)
		in.run.notePanic(in, "panic: "+fmtValue(v))
		panic(targetPanic{v: v})
	case *ssa.Send:
		in.chanSend(fr.get(ins.Chan).(*ChanV), fr.get(ins.X))
	case *ssa.Store:
		in.store(fr.get(ins.Addr).(*Ptr), fr.get(ins.Val))
	case *ssa.If:
		c := fr.get(ins.Cond).(*Term)
		succ := 1
		if c.IsConst() {
			if c.c == 1 {
				succ = 0
			}
		} else {
			if fr.symVisits == nil {
				fr.symVisits = map[*ssa.BasicBlock]int{}
			}
			fr.symVisits[fr.block]++
			if fr.symVisits[fr.block] > in.run.job.B.Unwind {
				in.run.noteUnwind(in, fr)
				in.abort("unwind", "unwinding bound %d exceeded at %s in %s", in.run.job.B.Unwind, in.posOf(fr), fr.fn.Name())
			}
			if in.branch(c, "if@"+in.posOf(fr)) {
				succ = 0
			}
		}
		fr.prev, fr.block = fr.block, fr.block.Succs[succ]
		return kJump
	case *ssa.Jump:
		fr.prev, fr.block = fr.block, fr.block.Succs[0]
		return kJump
	case *ssa.Defer:
		fn, args := in.prepareCall(fr, &ins.Call)
		target := fr
		if ins.DeferStack != nil {
			target = fr.get(ins.DeferStack).(*deferStack).fr
		}
		target.defers = &deferred{fn: fn, args: args, pos: ins.Pos(), tail: target.defers}
	case *ssa.Go:
		fn, args := in.prepareCall(fr, &ins.Call)
		in.spawn(fn, args, ins.Pos())
	case *ssa.MakeChan:
		n := in.concreteInt(fr.get(ins.Size), "chan size")
		in.nextMap++
		fr.set(ins, &ChanV{c: &ChanObj{id: in.nextMap, cap: n, et: ins.Type().Underlying().(*types.Chan).Elem()}})
	case *ssa.Alloc:
		c := in.alloc(deref(ins.Type()), in.posOf(fr))
		c.obj.escaped = ins.Heap
		fr.set(ins, in.ptrTo(c))
	case *ssa.MakeSlice:
		ln := in.concreteInt(fr.get(ins.Len), "MakeSlice len")
		cp := in.concreteInt(fr.get(ins.Cap), "MakeSlice cap")
		if ln < 0 || cp < ln {
			in.runtimePanic("makeslice: len out of range")
		}
		et := ins.Type().Underlying().(*types.Slice).Elem()
		arr := in.allocArray(et, cp, in.posOf(fr))
		arr.obj.escaped = true
		fr.set(ins, &SliceV{arr: arr, off: 0, len: ln, cap: cp})
	case *ssa.MakeMap:
		mt := ins.Type().Underlying().(*types.Map)
		in.nextMap++
		fr.set(ins, &MapV{m: &MapObj{id: in.nextMap, kt: mt.Key(), vt: mt.Elem()}})
	case *ssa.Range:
		fr.set(ins, in.rangeIter(fr.get(ins.X), ins.X.Type()))
	case *ssa.Next:
		fr.set(ins, fr.get(ins.Iter).(*rangeIterV).next(in, ins))
	case *ssa.FieldAddr:
		p := in.nonNil(fr.get(ins.X).(*Ptr), "field address of nil pointer")
		r := &Ptr{ts: make([]Target, len(p.ts))}
		for i, t := range p.ts {
			r.ts[i] = Target{t.g, t.c.kids[ins.Field]}
		}
		fr.set(ins, r)
	case *ssa.Field:
		fr.set(ins, fr.get(ins.X).(*StructV).f[ins.Field])
	case *ssa.IndexAddr:
		fr.set(ins, in.indexAddr(fr.get(ins.X), fr.get(ins.Index).(*Term), ins.X.Type()))
	case *ssa.Index:
		x := fr.get(ins.X)
		idx := fr.get(ins.Index).(*Term)
		switch xv := x.(type) {
		case *ArrayV:
			fr.set(ins, in.indexArrayV(xv, idx))
		case string:
			i := in.concreteInt(idx, "string index")
			if i < 0 || i >= len(xv) {
				in.runtimePanic("index out of range")
			}
			fr.set(ins, in.tb.Const(8, uint64(xv[i])))
		default:
			in.unsupported("Index on %T", x)
		}
	case *ssa.Lookup:
		fr.set(ins, in.lookup(ins, fr.get(ins.X), fr.get(ins.Index)))
	case *ssa.MapUpdate:
		in.mapUpdate(fr.get(ins.Map).(*MapV), fr.get(ins.Key), fr.get(ins.Value))
	case *ssa.TypeAssert:
		fr.set(ins, in.typeAssert(ins, fr.get(ins.X).(*IfaceV)))
	case *ssa.MakeClosure:
		env := make([]Value, len(ins.Bindings))
		for i, b := range ins.Bindings {
			env[i] = fr.get(b)
		}
		fr.set(ins, &FuncV{fn: ins.Fn.(*ssa.Function), env: env})
	case *ssa.Select:
		fr.set(ins, in.selectOp(fr, ins))
	default:
		in.unsupported("instruction %T", instr)
	}
	return kNext
}

// ---------- decisions ----------

// branch decides a symbolic boolean: returns the direction taken on this path.
func (in *Interp) branch(c *Term, what string) bool {
	if c.IsConst() {
		return c.c == 1
	}
	k := in.run.choose(in, []*Term{c, in.tb.Not(c)}, what)
	return k == 0
}

// concreteInt returns the concrete int value of v; a symbolic value is concretised by forking over
// its feasible values (bounded).
func (in *Interp) concreteInt(v Value, what string) int {
	t := v.(*Term)
	if t.IsConst() {
		return int(sext64(t.c, t.w))
	}
	return int(sext64(in.run.concretise(in, t, what), t.w))
}

// nonNil forks on p being nil (runtime panic on that side) and returns p restricted to non-nil targets.
func (in *Interp) nonNil(p *Ptr, msg string) *Ptr {
	hasNil := false
	for _, t := range p.ts {
		if t.c == nil {
			hasNil = true
		}
	}
	if !hasNil {
		return p
	}
	if len(p.ts) == 1 {
		in.runtimePanic("invalid memory address or nil pointer dereference (" + msg + ")")
	}
	isNil := in.ptrIsNil(p)
	if in.branch(isNil, "nilcheck") {
		in.runtimePanic("invalid memory address or nil pointer dereference (" + msg + ")")
	}
	r := &Ptr{}
	for _, t := range p.ts {
		if t.c != nil {
			r.ts = append(r.ts, t)
		}
	}
	if len(r.ts) == 1 {
		r.ts[0].g = in.tb.True()
	}
	return r
}

// concretePtr forks on which target a pointer has and returns the single cell.
func (in *Interp) concretePtr(p *Ptr, what string) *Cell {
	if c, ok := p.single(); ok {
		return c
	}
	conds := make([]*Term, len(p.ts))
	for i, t := range p.ts {
		conds[i] = t.g
	}
	k := in.run.choose(in, conds, "ptr:"+what)
	return p.ts[k].c
}

func (in *Interp) load(p *Ptr) Value {
	p = in.nonNil(p, "load")
	if c, ok := p.single(); ok {
		return in.loadCell(c)
	}
	var res Value
	ok := func() (ok bool) {
		defer func() {
			if r := recover(); r != nil {
				if _, is := r.(errUnmergeable); is {
					ok = false
					return
				}
				panic(r)
			}
		}()
		res = in.loadCell(p.ts[len(p.ts)-1].c)
		for i := len(p.ts) - 2; i >= 0; i-- {
			res = in.mergeValues(p.ts[i].g, in.loadCell(p.ts[i].c), res)
		}
		return true
	}()
	if ok {
		return res
	}
	return in.loadCell(in.concretePtr(p, "load-unmergeable"))
}

func (in *Interp) store(p *Ptr, v Value) {
	p = in.nonNil(p, "store")
	if c, ok := p.single(); ok {
		in.storeCell(c, v, in.tb.True())
		return
	}
	// check mergeability first (no partial updates): try on copies lazily -> simple approach:
	// scalars/pointers/structs of those always merge; otherwise concretise.
	if !mergeableValue(v) {
		in.storeCell(in.concretePtr(p, "store-unmergeable"), v, in.tb.True())
		return
	}
	for _, t := range p.ts {
		func() {
			defer func() {
				if r := recover(); r != nil {
					if _, is := r.(errUnmergeable); is {
						in.unsupported("store through multi-target pointer of unmergeable old value")
					}
					panic(r)
				}
			}()
			in.storeCell(t.c, v, t.g)
		}()
	}
}

func mergeableValue(v Value) bool {
	switch x := v.(type) {
	case *Term, *Ptr:
		return true
	case *StructV:
		for _, f := range x.f {
			if !mergeableValue(f) {
				return false
			}
		}
		return true
	case *ArrayV:
		for _, f := range x.e {
			if !mergeableValue(f) {
				return false
			}
		}
		return true
	}
	return false
}

func (in *Interp) indexAddr(x Value, idx *Term, xt types.Type) *Ptr {
	idx64 := idx
	if idx.w != 64 {
		// index operand may be of any integer type; sign handling: Go requires non-negative
		idx64 = in.tb.ZExt(idx, 64)
	}
	switch xv := x.(type) {
	case *SliceV:
		in.boundsCheck(idx64, xv.len)
		if idx64.IsConst() {
			return in.ptrTo(xv.arr.kids[xv.off+int(idx64.c)])
		}
		r := &Ptr{}
		for i := 0; i < xv.len; i++ {
			r.ts = append(r.ts, Target{in.tb.Eq(idx64, in.tb.Const(64, uint64(i))), xv.arr.kids[xv.off+i]})
		}
		return r
	case *Ptr:
		p := in.nonNil(xv, "index of nil array pointer")
		n := int(deref(xt).Underlying().(*types.Array).Len())
		in.boundsCheck(idx64, n)
		r := &Ptr{}
		for _, t := range p.ts {
			if idx64.IsConst() {
				r.ts = append(r.ts, Target{t.g, t.c.kids[int(idx64.c)]})
				continue
			}
			for i := 0; i < n; i++ {
				r.ts = append(r.ts, Target{in.tb.And(t.g, in.tb.Eq(idx64, in.tb.Const(64, uint64(i)))), t.c.kids[i]})
			}
		}
		return r
	}
	in.unsupported("IndexAddr on %T", x)
	return nil
}

func (in *Interp) boundsCheck(idx64 *Term, n int) {
	inRange := in.tb.ULt(idx64, in.tb.Const(64, uint64(n)))
	if !in.branch(inRange, "bounds") {
		in.runtimePanic(fmt.Sprintf("index out of range [..] with length %d", n))
	}
}

func (in *Interp) indexArrayV(a *ArrayV, idx *Term) Value {
	idx64 := in.tb.ZExt(idx, 64)
	in.boundsCheck(idx64, len(a.e))
	if idx64.IsConst() {
		return a.e[int(idx64.c)]
	}
	res := a.e[len(a.e)-1]
	for i := len(a.e) - 2; i >= 0; i-- {
		res = in.mergeValues(in.tb.Eq(idx64, in.tb.Const(64, uint64(i))), a.e[i], res)
	}
	return res
}

func (in *Interp) sliceOp(fr *frame, ins *ssa.Slice) Value {
	x := fr.get(ins.X)
	geti := func(v ssa.Value, def int) int {
		if v == nil {
			return def
		}
		return in.concreteInt(fr.get(v), "slice bound")
	}
	switch xv := x.(type) {
	case string:
		lo := geti(ins.Low, 0)
		hi := geti(ins.High, len(xv))
		if lo < 0 || hi > len(xv) || lo > hi {
			in.runtimePanic("slice bounds out of range")
		}
		return xv[lo:hi]
	case *SliceV:
		lo := geti(ins.Low, 0)
		hi := geti(ins.High, xv.len)
		mx := geti(ins.Max, xv.cap)
		if lo < 0 || hi > xv.cap || lo > hi || mx > xv.cap || hi > mx {
			in.runtimePanic("slice bounds out of range")
		}
		if xv.arr == nil {
			return &SliceV{}
		}
		return &SliceV{arr: xv.arr, off: xv.off + lo, len: hi - lo, cap: mx - lo}
	case *Ptr:
		c := in.concretePtr(in.nonNil(xv, "slice of nil array pointer"), "slice-array")
		n := len(c.kids)
		lo := geti(ins.Low, 0)
		hi := geti(ins.High, n)
		mx := geti(ins.Max, n)
		if lo < 0 || hi > n || lo > hi || mx > n || hi > mx {
			in.runtimePanic("slice bounds out of range")
		}
		return &SliceV{arr: c, off: lo, len: hi - lo, cap: mx - lo}
	}
	in.unsupported("Slice on %T", x)
	return nil
}

func (in *Interp) typeAssert(ins *ssa.TypeAssert, x *IfaceV) Value {
	ok := false
	var res Value
	if x.t != nil {
		if it, isI := ins.AssertedType.Underlying().(*types.Interface); isI {
			if types.Implements(x.t, it) {
				ok = true
				res = x
			}
		} else if types.Identical(x.t, ins.AssertedType) {
			ok = true
			res = x.v
		}
	}
	if ins.CommaOk {
		if !ok {
			res = in.zero(ins.AssertedType)
		}
		return TupleV{res, in.tb.Bool(ok)}
	}
	if !ok {
		in.runtimePanic(fmt.Sprintf("interface conversion: %v is not %s", x.t, ins.AssertedType))
	}
	return res
}

// ---------- maps ----------

func (in *Interp) valueEq(a, b Value) *Term {
	switch x := a.(type) {
	case *Term:
		return in.tb.Eq(x, b.(*Term))
	case string:
		return in.tb.Bool(x == b.(string))
	case float64:
		return in.tb.Bool(x == b.(float64))
	case *Ptr:
		return in.ptrEq(x, b.(*Ptr))
	case *StructV:
		y := b.(*StructV)
		r := in.tb.True()
		for i := range x.f {
			r = in.tb.And(r, in.valueEq(x.f[i], y.f[i]))
		}
		return r
	case *ArrayV:
		y := b.(*ArrayV)
		r := in.tb.True()
		for i := range x.e {
			r = in.tb.And(r, in.valueEq(x.e[i], y.e[i]))
		}
		return r
	case *IfaceV:
		y := b.(*IfaceV)
		if x.t == nil || y.t == nil {
			return in.tb.Bool(x.t == nil && y.t == nil)
		}
		if !types.Identical(x.t, y.t) {
			return in.tb.False()
		}
		return in.valueEq(x.v, y.v)
	case *ChanV:
		return in.tb.Bool(x.c == b.(*ChanV).c)
	case *MapV:
		return in.tb.Bool(x.m == b.(*MapV).m) // only nil comparisons are legal
	case *FuncV:
		y := b.(*FuncV)
		return in.tb.Bool(x.isNil() && y.isNil())
	case *SliceV:
		y := b.(*SliceV)
		return in.tb.Bool(x.arr == nil && y.arr == nil)
	}
	in.unsupported("valueEq on %T", a)
	return nil
}

func (in *Interp) mapFind(m *MapObj, k Value) int {
	for i, e := range m.entries {
		eq := in.valueEq(e.k, k)
		if in.branch(eq, "mapkey") {
			return i
		}
	}
	return -1
}

func (in *Interp) lookup(ins *ssa.Lookup, x Value, k Value) Value {
	switch xv := x.(type) {
	case string:
		i := in.concreteInt(k, "string index")
		if i < 0 || i >= len(xv) {
			in.runtimePanic("index out of range")
		}
		return in.tb.Const(8, uint64(xv[i]))
	case *MapV:
		vt := ins.X.Type().Underlying().(*types.Map).Elem()
		var v Value
		found := false
		if xv.m != nil {
			if i := in.mapFind(xv.m, k); i >= 0 {
				v, found = xv.m.entries[i].v, true
			}
		}
		if !found {
			v = in.zero(vt)
		}
		if ins.CommaOk {
			return TupleV{v, in.tb.Bool(found)}
		}
		return v
	}
	in.unsupported("Lookup on %T", x)
	return nil
}

func (in *Interp) mapUpdate(m *MapV, k, v Value) {
	if m.m == nil {
		in.runtimePanic("assignment to entry in nil map")
	}
	if i := in.mapFind(m.m, k); i >= 0 {
		m.m.entries[i].v = v
		return
	}
	m.m.entries = append(m.m.entries, mapEntry{k, v})
}

func (in *Interp) mapDelete(m *MapV, k Value) {
	if m.m == nil {
		return
	}
	if i := in.mapFind(m.m, k); i >= 0 {
		m.m.entries = append(m.m.entries[:i:i], m.m.entries[i+1:]...)
	}
}

// rangeIterV iterates over a map (order = decision variable) or a string.
type rangeIterV struct {
	m     *MapObj
	order []mapEntry
	pos   int
	s     string
	isStr bool
}

func (in *Interp) rangeIter(x Value, t types.Type) Value {
	switch xv := x.(type) {
	case string:
		return &rangeIterV{s: xv, isStr: true}
	case *MapV:
		it := &rangeIterV{}
		if xv.m != nil {
			it.m = xv.m
			n := len(xv.m.entries)
			order := append([]mapEntry(nil), xv.m.entries...)
			// iteration order is a decision variable with a bounded domain: one choice per run, taken at the first
			// range over a map with two or more entries: 0 = insertion order, 1 = reverse, 2 = rotated by one
			if n > 1 && in.run.job.B.MapOrders > 1 {
				if in.mapOrder < 0 {
					in.mapOrder = in.run.chooseLimited(in, make([]*Term, min(in.run.job.B.MapOrders, 3)), "maporder")
				}
				switch in.mapOrder {
				case 1:
					for i, j := 0, n-1; i < j; i, j = i+1, j-1 {
						order[i], order[j] = order[j], order[i]
					}
				case 2:
					order = append(order[1:], order[0])
				}
			}
			it.order = order
		}
		return it
	}
	in.unsupported("range over %T", x)
	return nil
}

func (it *rangeIterV) next(in *Interp, ins *ssa.Next) Value {
	if it.isStr {
		if it.pos >= len(it.s) {
			return TupleV{in.tb.False(), in.tb.Const(64, 0), in.tb.Const(32, 0)}
		}
		for i, r := range it.s[it.pos:] {
			_ = i
			idx := it.pos
			sz := len(string(r))
			it.pos += sz
			return TupleV{in.tb.True(), in.tb.Const(64, uint64(idx)), in.tb.Const(32, uint64(r))}
		}
	}
	tt := ins.Type().(*types.Tuple)
	for it.pos < len(it.order) {
		e := it.order[it.pos]
		it.pos++
		// skip entries deleted during iteration
		still := false
		for _, ce := range it.m.entries {
			if sameKeyIdentity(ce.k, e.k) {
				still = true
				e = ce
				break
			}
		}
		if !still {
			continue
		}
		return TupleV{in.tb.True(), e.k, e.v}
	}
	return TupleV{in.tb.False(), in.zeroOrNil(tt.At(1).Type()), in.zeroOrNil(tt.At(2).Type())}
}

func (in *Interp) zeroOrNil(t types.Type) Value {
	if b, ok := t.(*types.Basic); ok && b.Kind() == types.Invalid {
		return in.tb.False()
	}
	return in.zero(t)
}

func sameKeyIdentity(a, b Value) bool {
	switch x := a.(type) {
	case *Term:
		return x == b.(*Term)
	case string:
		return x == b.(string)
	case *IfaceV:
		y := b.(*IfaceV)
		if x.t == nil || y.t == nil {
			return x.t == nil && y.t == nil
		}
		return types.Identical(x.t, y.t) && sameKeyIdentity(x.v, y.v)
	case *Ptr:
		y := b.(*Ptr)
		return len(x.ts) == 1 && len(y.ts) == 1 && x.ts[0].c == y.ts[0].c
	case *StructV:
		y := b.(*StructV)
		for i := range x.f {
			if !sameKeyIdentity(x.f[i], y.f[i]) {
				return false
			}
		}
		return true
	}
	return false
}

// ---------- package init ----------

func (in *Interp) runInits() {
	for _, p := range in.P.initPkgs {
		in.initGlobals(p)
	}
	for _, p := range in.P.initPkgs {
		if f := p.Func("init"); f != nil && f.Blocks != nil {
			in.callSSA(nil, token.NoPos, f, nil, nil)
		}
	}
}

func (in *Interp) initGlobals(p *ssa.Package) {
	for _, m := range p.Members {
		if g, ok := m.(*ssa.Global); ok {
			in.global(g)
		}
	}
}
