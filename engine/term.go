package main

// SMT terms: hash-consed, constant-folding, bit-vector (Go widths) and Bool.

import (
	"fmt"
	"math/bits"
	"strings"
)

type Op uint8

const (
	OpConst Op = iota // BV or Bool constant (c)
	OpVar             // declared constant
	OpNot
	OpAnd
	OpOr
	OpIte
	OpEq
	OpAdd
	OpSub
	OpMul
	OpUDiv
	OpURem
	OpSDiv
	OpSRem
	OpBAnd
	OpBOr
	OpBXor
	OpBNot
	OpNeg
	OpShl
	OpLShr
	OpAShr
	OpULt
	OpULe
	OpSLt
	OpSLe
	OpConcat
	OpExtract // c = hi, c2 = lo
	OpZExt    // to width w
	OpSExt
)

var opNames = map[Op]string{
	OpNot: "not", OpAnd: "and", OpOr: "or", OpIte: "ite", OpEq: "=",
	OpAdd: "bvadd", OpSub: "bvsub", OpMul: "bvmul", OpUDiv: "bvudiv", OpURem: "bvurem",
	OpSDiv: "bvsdiv", OpSRem: "bvsrem", OpBAnd: "bvand", OpBOr: "bvor", OpBXor: "bvxor",
	OpBNot: "bvnot", OpNeg: "bvneg", OpShl: "bvshl", OpLShr: "bvlshr", OpAShr: "bvashr",
	OpULt: "bvult", OpULe: "bvule", OpSLt: "bvslt", OpSLe: "bvsle", OpConcat: "concat",
}

// Term is an immutable SMT term. w == 0 means Bool; otherwise a bit-vector of width w (1..64).
type Term struct {
	id   int
	op   Op
	w    int
	args []*Term
	c    uint64
	c2   int
	name string
	kz   uint64 // bits known to be zero (bit-vectors only)
	ko   uint64 // bits known to be one
}

// umax is an upper bound on the unsigned value derived from the known-zero bits.
func (t *Term) umax() uint64 { return mask(t.w) &^ t.kz }

func (t *Term) IsConst() bool { return t.op == OpConst }
func (t *Term) IsBool() bool  { return t.w == 0 }
func (t *Term) IsTrue() bool  { return t.op == OpConst && t.w == 0 && t.c == 1 }
func (t *Term) IsFalse() bool { return t.op == OpConst && t.w == 0 && t.c == 0 }

// TB is a term builder (one per run; not shared between workers).
type TB struct {
	tab    map[string]*Term
	nextID int
	vars   []*Term
	tt, ff *Term
}

func NewTB() *TB {
	b := &TB{tab: map[string]*Term{}}
	b.tt = b.mk(&Term{op: OpConst, w: 0, c: 1})
	b.ff = b.mk(&Term{op: OpConst, w: 0, c: 0})
	return b
}

func (b *TB) key(t *Term) string {
	var sb strings.Builder
	fmt.Fprintf(&sb, "%d/%d/%d/%d/%s", t.op, t.w, t.c, t.c2, t.name)
	for _, a := range t.args {
		fmt.Fprintf(&sb, ",%d", a.id)
	}
	return sb.String()
}

func (b *TB) mk(t *Term) *Term {
	k := b.key(t)
	if o, ok := b.tab[k]; ok {
		return o
	}
	t.id = b.nextID
	b.nextID++
	b.tab[k] = t
	if t.w > 0 {
		t.kz = knownZero(t)
		t.ko = knownOne(t)
		if t.op != OpConst && t.op != OpVar && (t.kz|t.ko)&mask(t.w) == mask(t.w) {
			// every bit is known: the term is a constant
			c := b.Const(t.w, t.ko)
			b.tab[k] = c
			return c
		}
	}
	return t
}

func knownOne(t *Term) uint64 {
	m := mask(t.w)
	a := func(i int) *Term { return t.args[i] }
	switch t.op {
	case OpConst:
		return t.c & m
	case OpBAnd:
		return a(0).ko & a(1).ko
	case OpBOr:
		return (a(0).ko | a(1).ko) & m
	case OpBXor:
		return ((a(0).ko & a(1).kz) | (a(0).kz & a(1).ko)) & m
	case OpBNot:
		return a(0).kz & m
	case OpIte:
		return a(1).ko & a(2).ko
	case OpZExt:
		return a(0).ko
	case OpExtract:
		return (a(0).ko >> uint(t.c2)) & m
	case OpConcat:
		return (a(0).ko<<uint(a(1).w) | a(1).ko) & m
	case OpShl:
		if a(1).IsConst() && a(1).c < uint64(t.w) {
			return (a(0).ko << uint(a(1).c)) & m
		}
	case OpLShr:
		if a(1).IsConst() && a(1).c < uint64(t.w) {
			return (a(0).ko >> uint(a(1).c)) & m
		}
	case OpAdd:
		// low bits where both operands are fully known and no carry can enter: add of known low parts
		n := min(bits.TrailingZeros64(^(a(0).kz|a(0).ko)), bits.TrailingZeros64(^(a(1).kz|a(1).ko)))
		if n > t.w {
			n = t.w
		}
		if n > 0 {
			lm := lowMask(n)
			sum := (a(0).ko & lm) + (a(1).ko & lm)
			return sum & lm
		}
	}
	return 0
}

func lowMask(n int) uint64 {
	if n >= 64 {
		return ^uint64(0)
	}
	if n <= 0 {
		return 0
	}
	return (uint64(1) << uint(n)) - 1
}

// boundKZ: known-zero mask for a value known to be <= m.
func boundKZ(m uint64, w int) uint64 {
	return mask(w) &^ lowMask(bits.Len64(m))
}

func knownZero(t *Term) uint64 {
	m := mask(t.w)
	a := func(i int) *Term { return t.args[i] }
	switch t.op {
	case OpConst:
		return ^t.c & m
	case OpBAnd:
		return (a(0).kz | a(1).kz) & m
	case OpBOr:
		return a(0).kz & a(1).kz
	case OpBXor:
		return ((a(0).kz & a(1).kz) | (a(0).ko & a(1).ko)) & m
	case OpBNot:
		return a(0).ko & m
	case OpIte:
		return a(1).kz & a(2).kz
	case OpZExt:
		return (a(0).kz | ^mask(a(0).w)) & m
	case OpExtract:
		return (a(0).kz >> uint(t.c2)) & m
	case OpConcat:
		return (a(0).kz<<uint(a(1).w) | a(1).kz) & m
	case OpShl:
		if a(1).IsConst() && a(1).c < uint64(t.w) {
			k := uint(a(1).c)
			return (a(0).kz<<k | lowMask(int(k))) & m
		}
		// at least the trailing zeros of the operand stay
		return lowMask(bits.TrailingZeros64(^a(0).kz)) & m
	case OpLShr:
		if a(1).IsConst() && a(1).c < uint64(t.w) {
			k := uint(a(1).c)
			return (a(0).kz>>k | (m &^ (m >> k))) & m
		}
		return boundKZ(a(0).umax(), t.w)
	case OpAdd:
		x, y := a(0).umax(), a(1).umax()
		kz := uint64(0)
		if s := x + y; s >= x && s <= m {
			kz = boundKZ(s, t.w)
		}
		tz := min(bits.TrailingZeros64(^a(0).kz), bits.TrailingZeros64(^a(1).kz))
		// fully known low parts: exact low bits of the sum
		n := min(bits.TrailingZeros64(^(a(0).kz|a(0).ko)), bits.TrailingZeros64(^(a(1).kz|a(1).ko)))
		if n > t.w {
			n = t.w
		}
		low := uint64(0)
		if n > 0 {
			lm := lowMask(n)
			sum := ((a(0).ko & lm) + (a(1).ko & lm)) & lm
			low = ^sum & lm
		}
		return (kz | lowMask(tz) | low) & m
	case OpMul:
		x, y := a(0).umax(), a(1).umax()
		hi, lo := bits.Mul64(x, y)
		kz := uint64(0)
		if hi == 0 && lo <= m {
			kz = boundKZ(lo, t.w)
		}
		tz := bits.TrailingZeros64(^a(0).kz) + bits.TrailingZeros64(^a(1).kz)
		return (kz | lowMask(tz)) & m
	case OpUDiv:
		return boundKZ(a(0).umax(), t.w)
	case OpURem:
		if a(1).IsConst() && a(1).c > 0 {
			return boundKZ(min(a(0).umax(), a(1).c-1), t.w)
		}
		return boundKZ(a(0).umax(), t.w)
	}
	return 0
}

func mask(w int) uint64 {
	if w >= 64 {
		return ^uint64(0)
	}
	return (uint64(1) << uint(w)) - 1
}

func (b *TB) True() *Term  { return b.tt }
func (b *TB) False() *Term { return b.ff }
func (b *TB) Bool(v bool) *Term {
	if v {
		return b.tt
	}
	return b.ff
}
func (b *TB) Const(w int, v uint64) *Term {
	if w == 0 {
		panic("Const with bool width")
	}
	return b.mk(&Term{op: OpConst, w: w, c: v & mask(w)})
}

// Var declares (or returns) a named variable.
func (b *TB) Var(name string, w int) *Term {
	t := &Term{op: OpVar, w: w, name: name}
	k := b.key(t)
	if o, ok := b.tab[k]; ok {
		return o
	}
	t = b.mk(t)
	b.vars = append(b.vars, t)
	return t
}

func sext64(v uint64, w int) int64 {
	if w >= 64 {
		return int64(v)
	}
	sh := uint(64 - w)
	return int64(v<<sh) >> sh
}

func (b *TB) Not(a *Term) *Term {
	if a.IsConst() {
		return b.Bool(a.c == 0)
	}
	if a.op == OpNot {
		return a.args[0]
	}
	return b.mk(&Term{op: OpNot, args: []*Term{a}})
}

func (b *TB) And(x, y *Term) *Term {
	if x.IsConst() {
		if x.c == 1 {
			return y
		}
		return b.ff
	}
	if y.IsConst() {
		if y.c == 1 {
			return x
		}
		return b.ff
	}
	if x == y {
		return x
	}
	if (x.op == OpNot && x.args[0] == y) || (y.op == OpNot && y.args[0] == x) {
		return b.ff
	}
	if x.id > y.id {
		x, y = y, x
	}
	return b.mk(&Term{op: OpAnd, args: []*Term{x, y}})
}

func (b *TB) Or(x, y *Term) *Term {
	if x.IsConst() {
		if x.c == 1 {
			return b.tt
		}
		return y
	}
	if y.IsConst() {
		if y.c == 1 {
			return b.tt
		}
		return x
	}
	if x == y {
		return x
	}
	if (x.op == OpNot && x.args[0] == y) || (y.op == OpNot && y.args[0] == x) {
		return b.tt
	}
	if x.id > y.id {
		x, y = y, x
	}
	return b.mk(&Term{op: OpOr, args: []*Term{x, y}})
}

func (b *TB) Implies(x, y *Term) *Term { return b.Or(b.Not(x), y) }

func (b *TB) Ite(c, x, y *Term) *Term {
	if c.IsConst() {
		if c.c == 1 {
			return x
		}
		return y
	}
	if x == y {
		return x
	}
	if x.w != y.w {
		panic(fmt.Sprintf("ite width mismatch %d %d", x.w, y.w))
	}
	if x.w == 0 {
		if x.IsConst() && y.IsConst() {
			if x.c == 1 {
				return c
			}
			return b.Not(c)
		}
		if x.IsTrue() {
			return b.Or(c, y)
		}
		if x.IsFalse() {
			return b.And(b.Not(c), y)
		}
		if y.IsTrue() {
			return b.Or(b.Not(c), x)
		}
		if y.IsFalse() {
			return b.And(c, x)
		}
	}
	return b.mk(&Term{op: OpIte, w: x.w, args: []*Term{c, x, y}})
}

func (b *TB) Eq(x, y *Term) *Term {
	if x.w != y.w {
		panic(fmt.Sprintf("eq width mismatch %d %d", x.w, y.w))
	}
	if x == y {
		return b.tt
	}
	if x.IsConst() && y.IsConst() {
		return b.Bool(x.c == y.c)
	}
	if x.w > 0 {
		if y.IsConst() && y.c&x.kz != 0 {
			return b.ff
		}
		if x.IsConst() && x.c&y.kz != 0 {
			return b.ff
		}
	}
	if x.w == 0 {
		if x.IsConst() {
			if x.c == 1 {
				return y
			}
			return b.Not(y)
		}
		if y.IsConst() {
			if y.c == 1 {
				return x
			}
			return b.Not(x)
		}
	}
	// ite(c, k1, k2) == k  with constants
	if y.IsConst() && x.op == OpIte && x.args[1].IsConst() && x.args[2].IsConst() {
		return b.Ite(x.args[0], b.Bool(x.args[1].c == y.c), b.Bool(x.args[2].c == y.c))
	}
	if x.IsConst() && y.op == OpIte && y.args[1].IsConst() && y.args[2].IsConst() {
		return b.Ite(y.args[0], b.Bool(y.args[1].c == x.c), b.Bool(y.args[2].c == x.c))
	}
	if x.id > y.id {
		x, y = y, x
	}
	return b.mk(&Term{op: OpEq, args: []*Term{x, y}})
}

func (b *TB) bin(op Op, x, y *Term) *Term {
	if x.w != y.w || x.w == 0 {
		panic(fmt.Sprintf("binop %s width mismatch %d %d", opNames[op], x.w, y.w))
	}
	w := x.w
	if x.IsConst() && y.IsConst() {
		a, c := x.c, y.c
		m := mask(w)
		switch op {
		case OpAdd:
			return b.Const(w, a+c)
		case OpSub:
			return b.Const(w, a-c)
		case OpMul:
			return b.Const(w, a*c)
		case OpUDiv:
			if c == 0 {
				return b.Const(w, m)
			}
			return b.Const(w, a/c)
		case OpURem:
			if c == 0 {
				return b.Const(w, a)
			}
			return b.Const(w, a%c)
		case OpSDiv:
			sa, sc := sext64(a, w), sext64(c, w)
			if sc == 0 {
				if sa < 0 {
					return b.Const(w, 1)
				}
				return b.Const(w, m)
			}
			if sc == -1 {
				return b.Const(w, uint64(-sa))
			}
			return b.Const(w, uint64(sa/sc))
		case OpSRem:
			sa, sc := sext64(a, w), sext64(c, w)
			if sc == 0 {
				return b.Const(w, a)
			}
			if sc == -1 {
				return b.Const(w, 0)
			}
			return b.Const(w, uint64(sa%sc))
		case OpBAnd:
			return b.Const(w, a&c)
		case OpBOr:
			return b.Const(w, a|c)
		case OpBXor:
			return b.Const(w, a^c)
		case OpShl:
			if c >= uint64(w) {
				return b.Const(w, 0)
			}
			return b.Const(w, a<<c)
		case OpLShr:
			if c >= uint64(w) {
				return b.Const(w, 0)
			}
			return b.Const(w, a>>c)
		case OpAShr:
			sa := sext64(a, w)
			if c >= uint64(w) {
				c = uint64(w - 1)
			}
			return b.Const(w, uint64(sa>>c))
		}
	}
	// identities
	switch op {
	case OpAdd, OpBOr, OpBXor:
		if x.IsConst() && x.c == 0 {
			return y
		}
		if y.IsConst() && y.c == 0 {
			return x
		}
	case OpSub:
		if y.IsConst() && y.c == 0 {
			return x
		}
		if x == y {
			return b.Const(w, 0)
		}
	case OpShl, OpLShr, OpAShr:
		if y.IsConst() && y.c == 0 {
			return x
		}
		if x.IsConst() && x.c == 0 {
			return x
		}
	case OpBAnd:
		if x.IsConst() && x.c == 0 {
			return x
		}
		if y.IsConst() && y.c == 0 {
			return y
		}
		if x.IsConst() && x.c == mask(w) {
			return y
		}
		if y.IsConst() && y.c == mask(w) {
			return x
		}
		if x == y {
			return x
		}
	case OpMul:
		if x.IsConst() && x.c == 1 {
			return y
		}
		if y.IsConst() && y.c == 1 {
			return x
		}
		if (x.IsConst() && x.c == 0) || (y.IsConst() && y.c == 0) {
			return b.Const(w, 0)
		}
	}
	switch op {
	case OpAdd, OpMul, OpBAnd, OpBOr, OpBXor:
		if x.id > y.id {
			x, y = y, x
		}
	}
	return b.mk(&Term{op: op, w: w, args: []*Term{x, y}})
}

func (b *TB) Add(x, y *Term) *Term  { return b.bin(OpAdd, x, y) }
func (b *TB) Sub(x, y *Term) *Term  { return b.bin(OpSub, x, y) }
func (b *TB) Mul(x, y *Term) *Term  { return b.bin(OpMul, x, y) }
func (b *TB) UDiv(x, y *Term) *Term { return b.bin(OpUDiv, x, y) }
func (b *TB) URem(x, y *Term) *Term { return b.bin(OpURem, x, y) }
func (b *TB) SDiv(x, y *Term) *Term { return b.bin(OpSDiv, x, y) }
func (b *TB) SRem(x, y *Term) *Term { return b.bin(OpSRem, x, y) }
func (b *TB) BAnd(x, y *Term) *Term { return b.bin(OpBAnd, x, y) }
func (b *TB) BOr(x, y *Term) *Term  { return b.bin(OpBOr, x, y) }
func (b *TB) BXor(x, y *Term) *Term { return b.bin(OpBXor, x, y) }
func (b *TB) Shl(x, y *Term) *Term  { return b.bin(OpShl, x, y) }
func (b *TB) LShr(x, y *Term) *Term { return b.bin(OpLShr, x, y) }
func (b *TB) AShr(x, y *Term) *Term { return b.bin(OpAShr, x, y) }

func (b *TB) BNot(x *Term) *Term {
	if x.IsConst() {
		return b.Const(x.w, ^x.c)
	}
	if x.op == OpBNot {
		return x.args[0]
	}
	return b.mk(&Term{op: OpBNot, w: x.w, args: []*Term{x}})
}

func (b *TB) Neg(x *Term) *Term {
	if x.IsConst() {
		return b.Const(x.w, -x.c)
	}
	return b.mk(&Term{op: OpNeg, w: x.w, args: []*Term{x}})
}

func (b *TB) cmp(op Op, x, y *Term) *Term {
	if x.w != y.w || x.w == 0 {
		panic(fmt.Sprintf("cmp %s width mismatch %d %d", opNames[op], x.w, y.w))
	}
	if x.IsConst() && y.IsConst() {
		switch op {
		case OpULt:
			return b.Bool(x.c < y.c)
		case OpULe:
			return b.Bool(x.c <= y.c)
		case OpSLt:
			return b.Bool(sext64(x.c, x.w) < sext64(y.c, y.w))
		case OpSLe:
			return b.Bool(sext64(x.c, x.w) <= sext64(y.c, y.w))
		}
	}
	if x == y {
		return b.Bool(op == OpULe || op == OpSLe)
	}
	if op == OpULt && y.IsConst() && y.c == 0 {
		return b.ff
	}
	switch op {
	case OpULt:
		if y.IsConst() && x.umax() < y.c {
			return b.tt
		}
		if x.IsConst() && x.c >= y.umax() {
			return b.ff
		}
	case OpULe:
		if y.IsConst() && x.umax() <= y.c {
			return b.tt
		}
		if x.IsConst() && x.c > y.umax() {
			return b.ff
		}
	case OpSLt, OpSLe:
		// both operands known non-negative: same as unsigned
		sign := uint64(1) << uint(x.w-1)
		if x.kz&sign != 0 && y.kz&sign != 0 {
			if op == OpSLt {
				return b.cmp(OpULt, x, y)
			}
			return b.cmp(OpULe, x, y)
		}
	}
	if op == OpULe && x.IsConst() && x.c == 0 {
		return b.tt
	}
	return b.mk(&Term{op: op, args: []*Term{x, y}})
}

func (b *TB) ULt(x, y *Term) *Term { return b.cmp(OpULt, x, y) }
func (b *TB) ULe(x, y *Term) *Term { return b.cmp(OpULe, x, y) }
func (b *TB) SLt(x, y *Term) *Term { return b.cmp(OpSLt, x, y) }
func (b *TB) SLe(x, y *Term) *Term { return b.cmp(OpSLe, x, y) }

func (b *TB) Extract(x *Term, hi, lo int) *Term {
	w := hi - lo + 1
	if lo == 0 && w == x.w {
		return x
	}
	if x.IsConst() {
		return b.Const(w, x.c>>uint(lo))
	}
	if x.op == OpZExt || x.op == OpSExt {
		in := x.args[0]
		if hi < in.w {
			return b.Extract(in, hi, lo)
		}
	}
	return b.mk(&Term{op: OpExtract, w: w, c: uint64(hi), c2: lo, args: []*Term{x}})
}

func (b *TB) ZExt(x *Term, w int) *Term {
	if w == x.w {
		return x
	}
	if w < x.w {
		return b.Extract(x, w-1, 0)
	}
	if x.IsConst() {
		return b.Const(w, x.c)
	}
	return b.mk(&Term{op: OpZExt, w: w, args: []*Term{x}})
}

func (b *TB) SExt(x *Term, w int) *Term {
	if w == x.w {
		return x
	}
	if w < x.w {
		return b.Extract(x, w-1, 0)
	}
	if x.IsConst() {
		return b.Const(w, uint64(sext64(x.c, x.w)))
	}
	return b.mk(&Term{op: OpSExt, w: w, args: []*Term{x}})
}

func (b *TB) Concat(hi, lo *Term) *Term {
	if hi.IsConst() && lo.IsConst() {
		return b.Const(hi.w+lo.w, hi.c<<uint(lo.w)|lo.c)
	}
	return b.mk(&Term{op: OpConcat, w: hi.w + lo.w, args: []*Term{hi, lo}})
}

// PopCount, TrailingZeros, LeadingZeros (Len) as term ladders.
func (b *TB) PopCount(x *Term) *Term {
	if x.IsConst() {
		return b.Const(x.w, uint64(bits.OnesCount64(x.c)))
	}
	// SWAR popcount for 64-bit; generic sum of bits otherwise
	sum := b.Const(x.w, 0)
	for i := 0; i < x.w; i++ {
		sum = b.Add(sum, b.ZExt(b.Extract(x, i, i), x.w))
	}
	return sum
}

func (b *TB) TrailingZeros(x *Term) *Term {
	if x.IsConst() {
		if x.c == 0 {
			return b.Const(x.w, uint64(x.w))
		}
		return b.Const(x.w, uint64(bits.TrailingZeros64(x.c)))
	}
	res := b.Const(x.w, uint64(x.w))
	for i := x.w - 1; i >= 0; i-- {
		bit := b.Eq(b.Extract(x, i, i), b.Const(1, 1))
		res = b.Ite(bit, b.Const(x.w, uint64(i)), res)
	}
	return res
}

// BitLen returns bits.Len(x) (minimum bits to represent x).
func (b *TB) BitLen(x *Term) *Term {
	if x.IsConst() {
		return b.Const(x.w, uint64(bits.Len64(x.c)))
	}
	res := b.Const(x.w, 0)
	for i := 0; i < x.w; i++ {
		bit := b.Eq(b.Extract(x, i, i), b.Const(1, 1))
		res = b.Ite(bit, b.Const(x.w, uint64(i+1)), res)
	}
	return res
}

func sortStr(w int) string {
	if w == 0 {
		return "Bool"
	}
	return fmt.Sprintf("(_ BitVec %d)", w)
}

func constStr(t *Term) string {
	if t.w == 0 {
		if t.c == 1 {
			return "true"
		}
		return "false"
	}
	if t.w%4 == 0 {
		return fmt.Sprintf("#x%0*x", t.w/4, t.c)
	}
	return fmt.Sprintf("#b%0*b", t.w, t.c)
}

// ref is how a term is referred to inside other terms.
func (t *Term) ref() string {
	switch t.op {
	case OpConst:
		return constStr(t)
	case OpVar:
		return t.name
	}
	return fmt.Sprintf("t%d", t.id)
}

// def returns the defining expression of a non-leaf term.
func (t *Term) def() string {
	var sb strings.Builder
	switch t.op {
	case OpExtract:
		fmt.Fprintf(&sb, "((_ extract %d %d) %s)", t.c, t.c2, t.args[0].ref())
	case OpZExt:
		fmt.Fprintf(&sb, "((_ zero_extend %d) %s)", t.w-t.args[0].w, t.args[0].ref())
	case OpSExt:
		fmt.Fprintf(&sb, "((_ sign_extend %d) %s)", t.w-t.args[0].w, t.args[0].ref())
	default:
		sb.WriteString("(")
		sb.WriteString(opNames[t.op])
		for _, a := range t.args {
			sb.WriteString(" ")
			sb.WriteString(a.ref())
		}
		sb.WriteString(")")
	}
	return sb.String()
}

// eval evaluates a term under a model (variable name -> value); used for interpretive replay checks.
func (t *Term) eval(m map[string]uint64, memo map[int]uint64) uint64 {
	if v, ok := memo[t.id]; ok {
		return v
	}
	var r uint64
	a := func(i int) uint64 { return t.args[i].eval(m, memo) }
	bw := func() int { return t.args[0].w }
	switch t.op {
	case OpConst:
		r = t.c
	case OpVar:
		r = m[t.name] & mask(max(t.w, 1))
	case OpNot:
		r = 1 - a(0)
	case OpAnd:
		r = a(0) & a(1)
	case OpOr:
		r = a(0) | a(1)
	case OpIte:
		if a(0) == 1 {
			r = a(1)
		} else {
			r = a(2)
		}
	case OpEq:
		if a(0) == a(1) {
			r = 1
		}
	case OpULt:
		if a(0) < a(1) {
			r = 1
		}
	case OpULe:
		if a(0) <= a(1) {
			r = 1
		}
	case OpSLt:
		if sext64(a(0), bw()) < sext64(a(1), bw()) {
			r = 1
		}
	case OpSLe:
		if sext64(a(0), bw()) <= sext64(a(1), bw()) {
			r = 1
		}
	case OpBNot:
		r = ^a(0) & mask(t.w)
	case OpNeg:
		r = -a(0) & mask(t.w)
	case OpExtract:
		r = (a(0) >> uint(t.c2)) & mask(t.w)
	case OpZExt:
		r = a(0)
	case OpSExt:
		r = uint64(sext64(a(0), bw())) & mask(t.w)
	case OpConcat:
		r = a(0)<<uint(t.args[1].w) | a(1)
	default:
		tb := NewTB()
		x := tb.Const(t.w, a(0))
		y := tb.Const(t.w, a(1))
		r = tb.bin(t.op, x, y).c
	}
	memo[t.id] = r
	return r
}
