package main

// Re-execution forking: a run executes the harness along a decision vector; new decisions ask the solver
// which alternatives are feasible, take one and queue the siblings.

import (
	"strconv"
	"fmt"
	"os"
	"runtime"
	"sort"
	"strings"
	"sync"
	"time"

	"golang.org/x/tools/go/ssa"
)

type Bounds struct {
	Unwind        int  `json:"unwind"`
	MaxDepth      int  `json:"max_call_depth"`
	MaxSteps      int  `json:"max_steps_per_path"`
	Preempt       int  `json:"preemptions"`
	MaxYields     int  `json:"max_yields"`
	MapOrders     int  `json:"map_orders"`
	Procs         int  `json:"gomaxprocs"`
	PoolReuse     bool `json:"pool_reuse"`
	Race          bool `json:"race_monitor"`
	MaxPaths      int  `json:"max_paths"`
	MaxWallS      int  `json:"max_wall_s"`
	ConcretiseMax int  `json:"concretise_max"`
	SolverMs      int  `json:"solver_timeout_ms"`
}

var wallFactor = func() int {
	if f, err := strconv.Atoi(os.Getenv("VERIF_WALL_FACTOR")); err == nil && f > 0 {
		return f
	}
	return 3
}()

func defaultBounds() Bounds {
	return Bounds{Unwind: 4, MaxDepth: 64, MaxSteps: 4_000_000, Preempt: 0, MaxYields: 3, MapOrders: 1, Procs: 1,
		MaxPaths: 200000, MaxWallS: 600, ConcretiseMax: 64, SolverMs: 60000}
}

type Job struct {
	Name     string         `json:"name"`
	Property string         `json:"property"`
	Pkg      string         `json:"pkg"`
	Func     string         `json:"func"`
	Params   map[string]int `json:"params,omitempty"`
	B        Bounds         `json:"bounds"`
	Canary   string         `json:"canary,omitempty"` // label expected to be violated (and replayed)
	Labels   []string       `json:"labels,omitempty"` // labels that must be reached (vacuity guard)
	Verbose  bool           `json:"-"`
	Desc     string         `json:"desc,omitempty"`
	Selftest bool           `json:"selftest,omitempty"` // differential concrete run: engine trace must equal the native trace
	Prefer   string         `json:"solver_first,omitempty"` // "int" (default) or "bits": which z3 configuration is asked first
}

type dec struct {
	K   int    `json:"k"`
	Val uint64 `json:"v,omitempty"`
	W   string `json:"w,omitempty"` // what was decided (kind of choice point); lets the concrete replay skip data decisions it does not meet
}

// isDataDecision: decisions on symbolic data (branches, pointer targets, concretised values). A concrete replay (all
// inputs substituted) meets none of the branch/concretise ones and only some of the pointer ones; scheduling, map-order,
// pool and vChoice decisions are met by every run.
func isDataDecision(w string) bool {
	for _, p := range []string{"sched:", "preempt:", "choice:", "maporder", "pool.reuse"} {
		if strings.HasPrefix(w, p) {
			return false
		}
	}
	return w != ""
}

type nondetRec struct {
	name string
	term *Term
	kind string
}

type NondetVal struct {
	Name string `json:"name"`
	Kind string `json:"kind"`
	W    int    `json:"w"`
	Val  uint64 `json:"val"`
}

type Violation struct {
	Job       string      `json:"job"`
	Property  string      `json:"property"`
	Label     string      `json:"label"`
	Scenario  string      `json:"scenario,omitempty"`
	Pos       string      `json:"pos"`
	Kind      string      `json:"kind"` // assert | panic | deadlock | race
	Msg       string      `json:"msg,omitempty"`
	Nondets   []NondetVal `json:"nondets"`
	Decisions []dec       `json:"decisions"`
	Params    map[string]int `json:"params,omitempty"`
	Pkg       string      `json:"pkg"`
	Func      string      `json:"func"`
	InterpOK  bool        `json:"interp_model_check"`
	Trace     []string    `json:"trace,omitempty"`
	Sched     []SchedEv   `json:"sched,omitempty"` // order in which the visible operations took effect (interpretive replay)
}

func (v *Violation) key() string { return v.Label + "|" + v.Scenario }

type JobResult struct {
	Job           *Job
	Paths         int
	Forks         int
	Obligations   int
	Discharged    int
	Violations    []*Violation
	AssumePruned  map[string]int
	Reached       map[string]int
	Stubs         map[string]int
	Funcs         map[string]string
	Unknown       int
	UnknownAssert int
	Unwinds       []string
	Aborts        map[string]int
	AbortMsgs     map[string]string
	SolverQueries int
	FallbackHits  int
	ByProc        map[string]int
	SolverTime    time.Duration
	Wall          time.Duration
	Steps         int64
	Undecided     []string
	Samples       []interface{}
	QueryFiles    []string
	Races         []string
	Trace         []string // trace of the (single) path of a self-test job
}

type Explorer struct {
	P       *Program
	job     *Job
	mu      sync.Mutex
	work    [][]dec
	active  int
	res     *JobResult
	start   time.Time
	stop    bool
	queryDir string
	nq      int
	nInf    int
	cond    *sync.Cond
}

type Run struct {
	job       *Job
	ex        *Explorer
	prefix    []dec
	decisions []dec
	whats     []string
	nondets   []nondetRec
	pc        []*Term
	hashMode  int
	scenario  string
	abortMu   sync.Mutex
	abortV    *abortRun
	lastPanic string
	panicPos  string
	// per-run tallies (merged into the job result at the end)
	forks, obligations, discharged, unknown, unknownAssert int
	violations []*Violation
	pruned     map[string]int
	reached    map[string]int
	stubs      map[string]int
	unwinds    []string
	samples    []interface{}
	pending    []pendingAssert
	trace      []string    // vTrace values (translator self-test)
	replayVals []NondetVal // interpretive replay: nondets take these concrete values, in order
	replayHit  string      // label of the assertion that evaluated to false concretely
}

type pendingAssert struct {
	c     *Term
	label string
	pos   string
	scen  string
}

func (r *Run) fresh() bool { return len(r.decisions) >= len(r.prefix) }

func (r *Run) setAbort(a abortRun) {
	r.abortMu.Lock()
	if r.abortV == nil {
		r.abortV = &a
	}
	r.abortMu.Unlock()
}

func (r *Run) stubHit(name string) {
	if r.fresh() {
		r.stubs[name]++
	}
}

func (r *Run) reach(label string) {
	if r.fresh() {
		r.reached[label]++
	}
}

func (r *Run) notePanic(in *Interp, msg string) {
	r.lastPanic = msg
	r.panicPos = in.where()
}
func (r *Run) dropLastPanicNote() { r.lastPanic = "" }

func (r *Run) noteUnwind(in *Interp, fr *frame) {
	r.unwinds = append(r.unwinds, fmt.Sprintf("%s in %s", in.posOf(fr), fr.fn.Name()))
}

func (r *Run) addPC(in *Interp, c *Term) {
	if c == nil || c.IsTrue() || r.replayVals != nil {
		return
	}
	r.pc = append(r.pc, c)
	in.sv.Assert(c)
}

// choose picks one of the alternatives (conds[i] == nil means unconditional).
func (r *Run) choose(in *Interp, conds []*Term, what string) int {
	pos := len(r.decisions)
	if r.replayVals != nil {
		// concrete replay: skip the recorded data decisions this run does not meet (its branches are constant)
		for pos < len(r.prefix) && r.prefix[pos].W != what && isDataDecision(r.prefix[pos].W) {
			r.decisions = append(r.decisions, r.prefix[pos])
			r.whats = append(r.whats, r.prefix[pos].W)
			pos++
		}
		if pos < len(r.prefix) && r.prefix[pos].W != what && r.prefix[pos].W != "" && isDataDecision(what) {
			// a data choice the recorded run did not have to make here (e.g. a pointer whose guards are concrete now)
			for i, c := range conds {
				if c == nil || c.IsTrue() {
					return i
				}
			}
		}
	}
	if pos < len(r.prefix) {
		d := r.prefix[pos]
		if d.K >= len(conds) {
			in.abort("internal", "replay divergence at decision %d (%s): k=%d of %d", pos, what, d.K, len(conds))
		}
		r.decisions = append(r.decisions, d)
		r.whats = append(r.whats, what)
		r.addPC(in, conds[d.K])
		return d.K
	}
	if r.replayVals != nil {
		// interpretive replay past the recorded decisions: conditions are concrete, follow the true one
		for i, c := range conds {
			if c == nil || c.IsTrue() {
				r.decisions = append(r.decisions, dec{K: i, W: what})
				r.whats = append(r.whats, what)
				return i
			}
		}
		in.abort("stop", "replay: no concrete alternative at %s", what)
	}
	// new decision: find feasible alternatives
	var feas []int
	nonTrivial := 0
	for i, c := range conds {
		if c == nil || c.IsTrue() {
			feas = append(feas, i)
			continue
		}
		if c.IsFalse() {
			continue
		}
		nonTrivial++
		// binary shortcut: if all previous alternatives were infeasible and this is the last one, it must hold
		if i == len(conds)-1 && len(feas) == 0 {
			feas = append(feas, i)
			break
		}
		switch in.sv.Check(c) {
		case "sat":
			feas = append(feas, i)
		case "unsat":
			r.ex.sampleInfeasible(in, c)
		default:
			r.unknown++
			feas = append(feas, i) // unknown = keep
		}
	}
	if len(feas) == 0 {
		in.abort("infeasible", "no feasible alternative at %s", what)
	}
	if len(feas) > 1 {
		r.flush(in)
		r.forks++
		base := append([]dec(nil), r.decisions...)
		for _, k := range feas[1:] {
			r.ex.push(append(append([]dec(nil), base...), dec{K: k, W: what}))
		}
	}
	k := feas[0]
	r.decisions = append(r.decisions, dec{K: k, W: what})
	r.whats = append(r.whats, what)
	r.addPC(in, conds[k])
	return k
}

// chooseLimited: unconditional alternatives (scheduler, map order, pool reuse).
func (r *Run) chooseLimited(in *Interp, conds []*Term, what string) int {
	return r.choose(in, conds, what)
}

// concretise forks over the feasible values of t.
func (r *Run) concretise(in *Interp, t *Term, what string) uint64 {
	pos := len(r.decisions)
	if pos < len(r.prefix) {
		d := r.prefix[pos]
		r.decisions = append(r.decisions, d)
		r.whats = append(r.whats, "conc:"+what)
		r.addPC(in, in.tb.Eq(t, in.tb.Const(t.w, d.Val)))
		return d.Val
	}
	if r.replayVals != nil {
		in.abort("stop", "replay: symbolic value at %s", what)
	}
	var vals []uint64
	var excl []*Term
	r.flush(in)
	in.sv.define(t)
	for {
		res := in.sv.Check(excl...)
		if res == "unsat" {
			break
		}
		if res != "sat" {
			r.unknown++
			in.abort("unsupported", "solver unknown while concretising %s", what)
		}
		// need the value of t: ensure it is defined, then get-value on a helper variable
		v, err := in.sv.ValueOf(t, excl)
		if err != nil {
			in.abort("unsupported", "get-value failed: %v", err)
		}
		vals = append(vals, v)
		excl = append(excl, in.tb.Not(in.tb.Eq(t, in.tb.Const(t.w, v))))
		if len(vals) > r.job.B.ConcretiseMax {
			in.abort("unsupported", "more than %d values while concretising %s at %s", r.job.B.ConcretiseMax, what, in.where())
		}
	}
	if len(vals) == 0 {
		in.abort("infeasible", "no value for %s", what)
	}
	sort.Slice(vals, func(i, j int) bool { return vals[i] < vals[j] })
	if len(vals) > 1 {
		r.forks++
		base := append([]dec(nil), r.decisions...)
		for i, v := range vals[1:] {
			r.ex.push(append(append([]dec(nil), base...), dec{K: i + 1, Val: v, W: "conc:" + what}))
		}
	}
	r.decisions = append(r.decisions, dec{K: 0, Val: vals[0], W: "conc:" + what})
	r.whats = append(r.whats, "conc:"+what)
	r.addPC(in, in.tb.Eq(t, in.tb.Const(t.w, vals[0])))
	return vals[0]
}

func (r *Run) assume(in *Interp, c *Term, pos string) {
	if c.IsTrue() {
		return
	}
	if r.replayVals != nil {
		if c.IsFalse() {
			in.abort("assume", "replay: assumption false at %s", pos)
		}
		return
	}
	if !r.fresh() {
		r.addPC(in, c)
		return
	}
	r.flush(in)
	if c.IsFalse() {
		r.pruned[pos]++
		in.abort("assume", "assumption false at %s", pos)
	}
	switch in.sv.Check(c) {
	case "unsat":
		r.pruned[pos]++
		in.abort("assume", "assumption infeasible at %s", pos)
	case "sat":
	default:
		r.unknown++
	}
	r.addPC(in, c)
}

func (r *Run) model(in *Interp) map[string]uint64 {
	m, err := in.sv.Model(in.tb.vars)
	if err != nil {
		return nil
	}
	return m
}

func (r *Run) mkViolation(in *Interp, kind, label, pos, msg string, m map[string]uint64) *Violation {
	v := &Violation{Job: r.job.Name, Property: r.job.Property, Label: label, Scenario: r.scenario, Pos: pos, Kind: kind, Msg: msg,
		Decisions: append([]dec(nil), r.decisions...), Params: r.job.Params, Pkg: r.job.Pkg, Func: r.job.Func}
	for _, n := range r.nondets {
		val := uint64(0)
		if m != nil {
			val = m[n.term.name]
		}
		v.Nondets = append(v.Nondets, NondetVal{Name: n.name, Kind: n.kind, W: n.term.w, Val: val})
	}
	if m != nil {
		// interpretive model check: every path constraint must evaluate to true under the model
		memo := map[int]uint64{}
		ok := true
		for _, c := range r.pc {
			if c.eval(m, memo) != 1 {
				ok = false
			}
		}
		v.InterpOK = ok
	}
	if r.job.Verbose {
		v.Trace = append(v.Trace, in.hostLog...)
	}
	return v
}

func (r *Run) assert(in *Interp, c *Term, label, pos string) {
	if r.replayVals != nil {
		if c.IsFalse() && r.replayHit == "" {
			r.replayHit = label
			in.abort("stop", "replayed assertion %s fails concretely", label)
		}
		return
	}
	if !r.fresh() {
		return // decided by the ancestor run that explored this prefix
	}
	r.reached[label]++
	r.obligations++
	if c.IsTrue() {
		r.discharged++
		return
	}
	r.pending = append(r.pending, pendingAssert{c: c, label: label, pos: pos, scen: r.scenario})
	if c.IsFalse() || len(r.pending) >= 64 {
		r.flush(in)
	}
}

// flush decides the pending assertions in one query: sat(PC and not(c1 and ... and cn)). The pending
// conditions are not part of PC, so a violation of any of them under the current path condition is found;
// it is called before every fork, assumption, concretisation and at the end of the path.
func (r *Run) flush(in *Interp) {
	for len(r.pending) > 0 {
		conj := in.tb.True()
		for _, p := range r.pending {
			conj = in.tb.And(conj, p.c)
		}
		neg := in.tb.Not(conj)
		res := "unsat"
		if !neg.IsFalse() {
			if neg.IsTrue() {
				res = in.sv.Check()
			} else {
				res = in.sv.Check(neg)
				r.ex.dumpQuery(in, neg, r.pending[0].label)
			}
		}
		switch res {
		case "unsat":
			r.discharged += len(r.pending)
			r.pending = r.pending[:0]
			return
		case "sat":
			m := r.model(in)
			if m == nil {
				r.unknownAssert += len(r.pending)
				r.pending = r.pending[:0]
				return
			}
			memo := map[int]uint64{}
			idx := -1
			for i, p := range r.pending {
				if p.c.eval(m, memo) != 1 {
					idx = i
					break
				}
			}
			if idx < 0 {
				// model does not falsify any conjunct: evaluation/solver mismatch
				r.unknownAssert += len(r.pending)
				r.pending = r.pending[:0]
				return
			}
			p := r.pending[idx]
			saved := r.scenario
			r.scenario = p.scen
			v := r.mkViolation(in, "assert", p.label, p.pos, "", m)
			r.scenario = saved
			r.violations = append(r.violations, v)
			r.discharged += idx
			// continue on the side where the violated assertion (and those before it) hold
			for _, q := range r.pending[:idx+1] {
				if q.c.IsFalse() {
					r.pending = r.pending[:0]
					in.abort("stop", "assertion %s always fails here", q.label)
				}
				r.addPC(in, q.c)
			}
			r.pending = append(r.pending[:0], r.pending[idx+1:]...)
			if in.sv.Check() != "sat" {
				r.pending = r.pending[:0]
				in.abort("stop", "assertion %s fails on the whole path", p.label)
			}
		default:
			r.unknownAssert += len(r.pending)
			r.pending = r.pending[:0]
			return
		}
	}
}

func (r *Run) noteUncaughtPanic(in *Interp, t *Thread, p targetPanic) {}

func (r *Run) noteDeadlock(in *Interp, what string) {
	if !r.fresh() || r.replayVals != nil {
		return
	}
	r.flush(in)
	r.obligations++
	res := in.sv.Check()
	if res == "sat" {
		m := r.model(in)
		r.violations = append(r.violations, r.mkViolation(in, "deadlock", "deadlock", in.where(), what+": "+in.describeBlocked(), m))
	}
}

func (r *Run) noteRace(in *Interp, rr *raceReport) {
	if !r.fresh() {
		return
	}
	r.samples = append(r.samples, map[string]string{"race_a": rr.a, "race_b": rr.b, "cell": rr.cell})
}

// ---------- exploration driver ----------

func (ex *Explorer) push(p []dec) {
	ex.mu.Lock()
	ex.work = append(ex.work, p)
	ex.cond.Signal()
	ex.mu.Unlock()
}

func (ex *Explorer) pop() ([]dec, bool) {
	ex.mu.Lock()
	defer ex.mu.Unlock()
	for {
		if ex.stop {
			return nil, false
		}
		if n := len(ex.work); n > 0 {
			p := ex.work[n-1]
			ex.work = ex.work[:n-1]
			ex.active++
			return p, true
		}
		if ex.active == 0 {
			ex.cond.Broadcast()
			return nil, false
		}
		ex.cond.Wait()
	}
}

func (ex *Explorer) done() {
	ex.mu.Lock()
	ex.active--
	if ex.active == 0 && len(ex.work) == 0 {
		ex.cond.Broadcast()
	}
	ex.mu.Unlock()
}

// sampleInfeasible dumps every 25th branch-pruning query (answered unsat) for the solver cross-check.
func (ex *Explorer) sampleInfeasible(in *Interp, c *Term) {
	if ex.queryDir == "" {
		return
	}
	ex.mu.Lock()
	ex.nInf++
	n := ex.nInf
	ex.mu.Unlock()
	if (n%25 != 1 && os.Getenv("VERIF_DUMP_ALL_INF") == "") || n > 20000 {
		return
	}
	writeFile(fmt.Sprintf("%s/%s_inf%05d.smt2", ex.queryDir, sanitize(ex.job.Name), n), "; answered unsat by "+in.sv.LastBackend+"\n"+in.sv.Standalone(c))
}

func (ex *Explorer) dumpQuery(in *Interp, neg *Term, label string) {
	if ex.queryDir == "" {
		return
	}
	ex.mu.Lock()
	ex.nq++
	n := ex.nq
	ex.mu.Unlock()
	if n > 4000 {
		return
	}
	writeFile(fmt.Sprintf("%s/%s_%05d.smt2", ex.queryDir, sanitize(ex.job.Name), n), in.sv.Standalone(neg))
}

// RunJob explores one job with the given number of workers.
func RunJob(P *Program, job *Job, workers int, solverBin string, solverArgs []string, queryDir string) *JobResult {
	ex := &Explorer{P: P, job: job, start: time.Now(), queryDir: queryDir}
	ex.cond = sync.NewCond(&ex.mu)
	ex.res = &JobResult{Job: job, AssumePruned: map[string]int{}, Reached: map[string]int{}, Stubs: map[string]int{},
		Funcs: map[string]string{}, Aborts: map[string]int{}, AbortMsgs: map[string]string{}, ByProc: map[string]int{}}
	ex.work = [][]dec{nil}
	var wg sync.WaitGroup
	for w := 0; w < workers; w++ {
		wg.Add(1)
		go func() {
			defer wg.Done()
			sv, err := NewSolver(solverBin, job.Prefer, job.B.SolverMs)
			if err != nil {
				ex.mu.Lock()
				ex.res.Undecided = append(ex.res.Undecided, "solver start: "+err.Error())
				ex.stop = true
				ex.mu.Unlock()
				return
			}
			defer sv.Close()
			for {
				p, ok := ex.pop()
				if !ok {
					break
				}
				ex.runOne(sv, p)
				ex.done()
			}
			ex.mu.Lock()
			ex.res.SolverQueries += sv.Queries
			ex.res.SolverTime += sv.Time
			ex.res.FallbackHits += sv.FallbackHits
			for k, v := range sv.ByProc {
				ex.res.ByProc[k] += v
			}
			ex.mu.Unlock()
		}()
	}
	wg.Wait()
	res := ex.res
	res.Wall = time.Since(ex.start)
	// vacuity: declared labels must have been reached
	for _, l := range job.Labels {
		if res.Reached[l] == 0 {
			res.Undecided = append(res.Undecided, "vacuous: label "+l+" never reached")
		}
	}
	if res.UnknownAssert > 0 {
		res.Undecided = append(res.Undecided, fmt.Sprintf("%d assertion queries inconclusive", res.UnknownAssert))
	}
	if len(res.Unwinds) > 0 {
		res.Undecided = append(res.Undecided, "unwinding assertion failed: "+strings.Join(uniq(res.Unwinds), "; "))
	}
	for _, k := range []string{"steps", "unsupported", "internal"} {
		if res.Aborts[k] > 0 {
			res.Undecided = append(res.Undecided, fmt.Sprintf("%d paths aborted (%s): %s", res.Aborts[k], k, res.AbortMsgs[k]))
		}
	}
	if ex.stop {
		res.Undecided = append(res.Undecided, "exploration stopped early (path or time budget)")
	}
	if len(res.Races) > 0 {
		res.Undecided = append(res.Undecided, "data race (reduction to visible operations not justified): "+strings.Join(uniq(res.Races), "; "))
	}
	return res
}

func uniq(xs []string) []string {
	m := map[string]bool{}
	var out []string
	for _, x := range xs {
		if !m[x] {
			m[x] = true
			out = append(out, x)
		}
	}
	sort.Strings(out)
	return out
}

func (ex *Explorer) runOne(sv *Solver, prefix []dec) {
	job := ex.job
	sv.Reset()
	r := &Run{job: job, ex: ex, prefix: prefix, pruned: map[string]int{}, reached: map[string]int{}, stubs: map[string]int{}}
	in := &Interp{P: ex.P, tb: NewTB(), sv: sv, run: r, globals: map[*ssa.Global]*Cell{},
		mutexes: map[*Cell]*mutexState{}, wgs: map[*Cell]*wgState{}, onces: map[*Cell]*onceState{}, conds: map[*Cell]*condState{},
		pools: map[*Cell]*poolState{}, hashMemo: map[string]*Term{}, gobQueues: map[*Cell]*[]Value{},
		strBuilders: map[*Cell]*strings.Builder{}, funcsSeen: map[*ssa.Function]bool{}, mapOrder: -1}
	pkg := ex.P.pkgs[job.Pkg]
	var abort *abortRun
	if pkg == nil {
		abort = &abortRun{kind: "internal", msg: "package not loaded: " + job.Pkg}
	} else if fn := pkg.Func(job.Func); fn == nil {
		abort = &abortRun{kind: "internal", msg: "harness function not found: " + job.Func}
	} else {
		body := &FuncV{name: "main", native: func(in *Interp, _ []Value) Value {
			in.runInits()
			in.callSSA(nil, 0, fn, nil, nil)
			return nil
		}}
		main := in.newThread("main", body, nil)
		main.isMain = true
		in.resume(main)
		in.sched.wg.Wait()
		abort = r.abortV
	}
	// decide whatever assertions are still pending (the path ended, by completion or abort)
	if r.fresh() || len(r.pending) > 0 {
		func() {
			defer func() {
				if x := recover(); x != nil {
					if _, ok := x.(abortRun); !ok {
						panic(x)
					}
				}
			}()
			r.flush(in)
		}()
	}
	// uncaught panic on the main thread = violation (unless the path is infeasible, which cannot be: PC is sat)
	if abort != nil && abort.kind == "panic" && r.fresh() {
		r.obligations++
		if sv.Check() == "sat" {
			m := r.model(in)
			lbl := "panic"
			r.violations = append(r.violations, r.mkViolation(in, "panic", lbl, r.panicPos, abort.msg, m))
		}
	}
	if os.Getenv("VERIF_RUNSTATS") != "" {
		h := map[string]int{}
		for _, w := range r.whats {
			h[w]++
		}
		fmt.Fprintf(os.Stderr, "whats: %v\n", h)
		fmt.Fprintf(os.Stderr, "run: steps=%d terms=%d objs=%d decisions=%d nondets=%d script=%d\n", in.steps, in.tb.nextID, in.nextObj, len(r.decisions), len(r.nondets), len(sv.script))
	}
	ex.mu.Lock()
	defer ex.mu.Unlock()
	res := ex.res
	res.Paths++
	if job.Selftest {
		res.Trace = append([]string(nil), r.trace...)
	}
	res.Forks += r.forks
	res.Obligations += r.obligations
	res.Discharged += r.discharged
	res.Unknown += r.unknown
	res.UnknownAssert += r.unknownAssert
	res.Steps += int64(in.steps)
	res.Violations = append(res.Violations, r.violations...)
	for k, v := range r.pruned {
		res.AssumePruned[k] += v
	}
	for k, v := range r.reached {
		res.Reached[k] += v
	}
	for k, v := range r.stubs {
		res.Stubs[k] += v
	}
	res.Unwinds = append(res.Unwinds, r.unwinds...)
	for f := range in.funcsSeen {
		fi := ex.P.info(f)
		if fi.inRepo && !fi.isRT {
			res.Funcs[ex.P.fnName(f)] = fi.posStr
		}
	}
	if in.race != nil {
		res.Races = append(res.Races, in.race.a+" vs "+in.race.b+" on "+in.race.cell)
	}
	if abort != nil {
		res.Aborts[abort.kind]++
		if _, ok := res.AbortMsgs[abort.kind]; !ok {
			res.AbortMsgs[abort.kind] = abort.msg
		}
	} else {
		res.Aborts["completed"]++
	}
	if len(res.Samples) < 3 {
		s := map[string]interface{}{"job": job.Name, "decisions": len(r.decisions), "nondets": len(r.nondets), "ended": "completed"}
		if abort != nil {
			s["ended"] = abort.kind
		}
		var names []string
		for _, n := range r.nondets {
			names = append(names, n.name)
		}
		s["symbolic_inputs"] = names
		if len(r.whats) > 0 {
			w := r.whats
			if len(w) > 12 {
				w = w[:12]
			}
			s["first_decisions"] = w
		}
		res.Samples = append(res.Samples, s)
	}
	res.Samples = append(res.Samples, r.samples...)
	if res.Paths%64 == 0 {
		var ms runtime.MemStats
		runtime.ReadMemStats(&ms)
		if ms.HeapAlloc > 24<<30 {
			ex.stop = true
			res.Undecided = append(res.Undecided, "engine heap above 24 GiB: exploration stopped")
			ex.cond.Broadcast()
		}
	}
	// the wall budget guards against runaway explorations; it is scaled (default x3, VERIF_WALL_FACTOR) so that a machine
	// busy with other work does not turn a finished-in-time job into an "undecided"
	if res.Paths >= job.B.MaxPaths || time.Since(ex.start) > time.Duration(job.B.MaxWallS*wallFactor)*time.Second {
		ex.stop = true
		ex.cond.Broadcast()
	}
}

// InterpReplay re-executes the harness along the counterexample's decision vector with the model's values
// substituted for every nondeterministic input (no solver involved) and reports which assertion, if any,
// evaluates to false concretely. This validates encoding, model extraction and schedule against the
// executor's own semantics; it is the replay mode of concurrent counterexamples (replay-mode=interp).
func InterpReplay(P *Program, job *Job, v *Violation) (string, bool) {
	ex := &Explorer{P: P, job: job, start: time.Now()}
	ex.cond = sync.NewCond(&ex.mu)
	ex.res = &JobResult{Job: job, AssumePruned: map[string]int{}, Reached: map[string]int{}, Stubs: map[string]int{},
		Funcs: map[string]string{}, Aborts: map[string]int{}, AbortMsgs: map[string]string{}, ByProc: map[string]int{}}
	sv := &Solver{emitted: map[int]bool{}, ByProc: map[string]int{}}
	r := &Run{job: job, ex: ex, prefix: v.Decisions, pruned: map[string]int{}, reached: map[string]int{}, stubs: map[string]int{}}
	r.replayVals = v.Nondets
	if r.replayVals == nil {
		r.replayVals = []NondetVal{}
	}
	in := &Interp{P: P, tb: NewTB(), sv: sv, run: r, globals: map[*ssa.Global]*Cell{},
		mutexes: map[*Cell]*mutexState{}, wgs: map[*Cell]*wgState{}, onces: map[*Cell]*onceState{}, conds: map[*Cell]*condState{},
		pools: map[*Cell]*poolState{}, hashMemo: map[string]*Term{}, gobQueues: map[*Cell]*[]Value{},
		strBuilders: map[*Cell]*strings.Builder{}, funcsSeen: map[*ssa.Function]bool{}, mapOrder: -1}
	pkg := P.pkgs[job.Pkg]
	fn := pkg.Func(job.Func)
	body := &FuncV{name: "main", native: func(in *Interp, _ []Value) Value {
		in.runInits()
		in.schedRec = true // package initialisers are not part of the native harness run
		in.callSSA(nil, 0, fn, nil, nil)
		return nil
	}}
	main := in.newThread("main", body, nil)
	main.isMain = true
	in.resume(main)
	in.sched.wg.Wait()
	v.Sched = in.schedTrace
	ab := r.abortV
	if job.Verbose {
		v.Trace = append([]string(nil), in.hostLog...)
	}
	switch v.Kind {
	case "assert":
		return "interp: assertion " + r.replayHit, r.replayHit == v.Label
	case "panic":
		return "interp: " + fmt.Sprint(ab), ab != nil && ab.kind == "panic"
	case "deadlock":
		return "interp: " + fmt.Sprint(ab), ab != nil && ab.kind == "deadlock"
	}
	return "interp: unsupported kind", false
}
