package main

// Engine threads (one host goroutine each, baton passing: exactly one runs at a time), the scheduler
// whose choices are decision variables, blocking primitives, and the happens-before race monitor.

import (
	"fmt"
	"go/token"
	"runtime"
	"sync"
)

func runtimeStack(buf []byte) int { return runtime.Stack(buf, false) }

type vclock []int

func (v vclock) get(i int) int {
	if i < len(v) {
		return v[i]
	}
	return 0
}

func (v *vclock) join(o vclock) {
	for len(*v) < len(o) {
		*v = append(*v, 0)
	}
	for i, x := range o {
		if x > (*v)[i] {
			(*v)[i] = x
		}
	}
}

func (v vclock) clone() vclock { return append(vclock(nil), v...) }

type epoch struct {
	tid, clk int
	pos     string
}

type Thread struct {
	id      int
	name    string
	wake    chan struct{}
	started bool
	done    bool
	parked  bool // spawned in sequential mode, not scheduled until released
	daemon  bool // declared by the harness to stay parked for the whole run
	fn      Value
	args    []Value
	top     *frame
	blocked func() bool
	blockWhat string
	vc      vclock
	isMain  bool
	pull    bool // coroutine thread of iter.Pull (never scheduled by the scheduler)
	yields  int  // consecutive Gosched without progress elsewhere
	spinKey string
	spinCnt int
	resumeTo     *Thread
	pullConsumer *Thread
	loads        []spinRec // atomic loads since this thread's last write-like visible operation
	nsr          int       // thread number in the recorded schedule (creation order, iter.Pull coroutines not counted)
}

// SchedEv is one entry of the recorded schedule used by the native schedule replay: thread T performed a visible
// operation of kind K (for "go": and created thread C).
type SchedEv struct {
	T int    `json:"t"`
	K string `json:"k"`
	C int    `json:"c,omitempty"`
}

// traceOp records that the current thread's visible operation of this kind takes effect now.
func (in *Interp) traceOp(kind string) {
	if !in.schedRec || in.cur == nil || in.cur.pull {
		return
	}
	in.schedTrace = append(in.schedTrace, SchedEv{T: in.cur.nsr, K: kind})
}

func (in *Interp) traceGo(child *Thread) {
	if !in.schedRec || in.cur == nil || in.cur.pull {
		return
	}
	in.schedTrace = append(in.schedTrace, SchedEv{T: in.cur.nsr, K: "go", C: child.nsr})
}

type spinRec struct {
	c   *Cell
	ver int
	at  string // call-stack fingerprint: a genuine spin repeats the same program point
}

type schedState struct {
	preempt int // pre-emptions used so far
	wg      sync.WaitGroup
	mu      sync.Mutex
	trace   []int
}

type raceReport struct {
	a, b string
	cell string
}

func (in *Interp) newThread(name string, fn Value, args []Value) *Thread {
	t := &Thread{id: len(in.threads), name: name, wake: make(chan struct{}, 1), fn: fn, args: args}
	t.nsr = in.nsrNext
	in.nsrNext++
	if in.cur != nil {
		// goroutine start: child inherits parent's clock
		in.tick(in.cur)
		t.vc = in.cur.vc.clone()
	}
	for len(t.vc) <= t.id {
		t.vc = append(t.vc, 0)
	}
	t.vc[t.id] = 1
	in.threads = append(in.threads, t)
	return t
}

func (in *Interp) tick(t *Thread) {
	for len(t.vc) <= t.id {
		t.vc = append(t.vc, 0)
	}
	t.vc[t.id]++
}

// spawn handles a `go` statement.
func (in *Interp) spawn(fn Value, args []Value, pos token.Pos) {
	t := in.newThread(fmt.Sprintf("go@%s", in.P.fset.Position(pos)), fn, args)
	in.traceGo(t)
	if !in.par {
		t.parked = true
		return
	}
	in.visible("go")
}

func (in *Interp) enabled(t *Thread) bool {
	if t.done || t.parked || t.pull {
		return false
	}
	if t.blocked != nil {
		return t.blocked()
	}
	return true
}

// startOrWake transfers control to t; the caller then waits (unless it is finished).
func (in *Interp) resume(t *Thread) {
	in.cur = t
	if !t.started {
		t.started = true
		in.sched.wg.Add(1)
		go in.threadMain(t)
		return
	}
	t.wake <- struct{}{}
}

// switchTo passes the baton to t and waits until this thread is resumed.
func (in *Interp) switchTo(t *Thread) {
	me := in.cur
	if t == me {
		return
	}
	in.resume(t)
	in.waitBaton(me)
}

func (in *Interp) waitBaton(me *Thread) {
	<-me.wake
	if in.aborted {
		panic(abortRun{kind: "stop"})
	}
	in.cur = me
}

func (in *Interp) threadMain(t *Thread) {
	defer in.sched.wg.Done()
	defer func() {
		r := recover()
		t.done = true
		if r != nil {
			switch x := r.(type) {
			case abortRun:
				if x.kind != "stop" {
					in.run.setAbort(x)
				}
			case targetPanic:
				in.run.noteUncaughtPanic(in, t, x)
				in.run.setAbort(abortRun{kind: "panic", msg: x.msg + " " + fmtValue(x.v) + " @ " + in.run.panicPos})
			default:
				in.run.setAbort(abortRun{kind: "internal", msg: fmt.Sprintf("%v\n%s", r, stack())})
			}
			in.killAll(t)
			return
		}
		// normal exit: hand the baton on
		in.afterExit(t)
	}()
	in.cur = t
	in.call(nil, token.NoPos, t.fn, t.args)
}

// killAll wakes every suspended thread so that it unwinds.
func (in *Interp) killAll(me *Thread) {
	in.aborted = true
	for _, t := range in.threads {
		if t != me && t.started && !t.done {
			select {
			case t.wake <- struct{}{}:
			default:
			}
		}
	}
}

// afterExit picks who runs after thread t finished.
func (in *Interp) afterExit(t *Thread) {
	in.tick(t)
	if t.isMain {
		// main finished: the run is over; unwind everything else
		in.killAll(t)
		return
	}
	if t.pull {
		in.resume(t.pullConsumer)
		return
	}
	next := in.pickNext(nil, "exit")
	if next == nil && !in.par {
		// sequential mode: goroutines started so far are parked; the waiting thread may be waiting for several of them
		// (a WaitGroup over the chunks of a parallel copy): release the next one, in spawn order (a legal schedule)
		for _, p := range in.threads {
			if p.parked && !p.done && !p.daemon {
				p.parked = false
				next = p
				break
			}
		}
	}
	if next == nil {
		// nobody can run: if main waits for us it is enabled (handled by pickNext); otherwise deadlock
		in.run.noteDeadlock(in, "thread exit leaves every thread blocked")
		in.run.setAbort(abortRun{kind: "deadlock", msg: in.describeBlocked()})
		in.killAll(t)
		return
	}
	in.resume(next)
}

func (in *Interp) describeBlocked() string {
	s := ""
	for _, t := range in.threads {
		if !t.done && !t.parked && !t.pull {
			w := "runnable"
			if t.blocked != nil {
				w = "blocked on " + t.blockWhat
			}
			s += fmt.Sprintf("[T%d %s: %s] ", t.id, t.name, w)
		}
	}
	return s
}

// pickNext chooses the next thread among the enabled ones (excluding `except`), as a decision.
func (in *Interp) pickNext(except *Thread, why string) *Thread {
	var en []*Thread
	for _, t := range in.threads {
		if t != except && in.enabled(t) {
			en = append(en, t)
		}
	}
	if len(en) == 0 {
		return nil
	}
	if len(en) == 1 || !in.par {
		return en[0]
	}
	k := in.run.chooseLimited(in, make([]*Term, len(en)), "sched:"+why)
	return en[k]
}

// visible is called before every visible operation of the current thread; in a parallel section the
// scheduler may pre-empt here (costing one unit of the pre-emption budget).
func (in *Interp) visible(kind string) {
	if in.cur != nil && kind != "atomic.load" {
		in.cur.loads = in.cur.loads[:0]
	}
	if !in.par || in.cur == nil || in.cur.pull {
		return
	}
	me := in.cur
	me.yields = 0
	if in.sched.preempt >= in.run.job.B.Preempt {
		return
	}
	var others []*Thread
	for _, t := range in.threads {
		if t != me && in.enabled(t) {
			others = append(others, t)
		}
	}
	if len(others) == 0 {
		return
	}
	k := in.run.chooseLimited(in, make([]*Term, 1+len(others)), "preempt:"+kind)
	if k == 0 {
		return
	}
	in.sched.preempt++
	in.switchTo(others[k-1])
}

// blockOn suspends the current thread until cond() holds.
func (in *Interp) blockOn(obj interface{}, cond func() bool, what string) {
	me := in.cur
	for !cond() {
		me.blocked = cond
		me.blockWhat = what
		next := in.pickNext(me, "block")
		if next == nil {
			// try releasing parked goroutines in sequential mode (a legal schedule)
			if !in.par {
				for _, t := range in.threads {
					if t.parked && !t.done {
						t.parked = false
						next = t
						break
					}
				}
			}
			if next == nil {
				in.run.noteDeadlock(in, what)
				in.abort("deadlock", "all threads blocked: %s", in.describeBlocked())
			}
		}
		in.switchTo(next)
		me.blocked = nil
	}
	me.blocked = nil
}

func (in *Interp) blockOnAny(objs []interface{}, cond func() bool, what string) {
	in.blockOn(nil, cond, what)
}

func (in *Interp) blockForever(what string) {
	in.blockOn(nil, func() bool { return false }, what)
}

func (in *Interp) wakeWaiters(obj interface{}) {}

// gosched: yield to another enabled thread if there is one (free switch).
func (in *Interp) gosched() {
	me := in.cur
	if me.pull {
		return
	}
	me.yields++
	if me.yields > in.run.job.B.MaxYields {
		in.run.noteDeadlock(in, "livelock: thread spinning in Gosched loop")
		in.abort("deadlock", "livelock: T%d yields without progress: %s", me.id, in.describeBlocked())
	}
	var next *Thread
	if in.par {
		next = in.pickNext(me, "gosched")
	} else {
		for _, t := range in.threads {
			if t != me && in.enabled(t) {
				next = t
				break
			}
		}
	}
	if next == nil {
		return
	}
	in.switchTo(next)
}

// runPar runs the given closures as concurrent threads (a parallel section) and returns when all
// threads (including goroutines they started) have finished.
func (in *Interp) runPar(fns []Value) {
	if in.par {
		in.unsupported("nested vPar")
	}
	me := in.cur
	in.par = true
	in.raceOn = in.run.job.B.Race
	first := len(in.threads)
	for i, f := range fns {
		in.traceGo(in.newThread(fmt.Sprintf("par%d", i), f, nil))
	}
	// goroutines started before the parallel section become schedulable too, except those the harness declared
	// daemons (vDaemons: e.g. periodicCleanUp waiting on a ticker that the manual clock never fires)
	for _, t := range in.threads {
		if t.parked && !t.daemon {
			t.parked = false
		}
	}
	_ = first
	allDone := func() bool {
		for _, t := range in.threads {
			if t != me && !t.done && !t.pull && !t.parked {
				return false
			}
		}
		return true
	}
	in.blockOn(nil, allDone, "vPar.join")
	// join: main acquires everybody's clock
	for _, t := range in.threads {
		if t != me {
			me.vc.join(t.vc)
		}
	}
	in.par = false
	in.raceOn = false
}

// runParked runs goroutines that were spawned in sequential mode, each to completion (or until blocked),
// in spawn order.
func (in *Interp) runParked() {
	me := in.cur
	for {
		var next *Thread
		for _, t := range in.threads {
			if t.parked && !t.done {
				next = t
				break
			}
		}
		if next == nil {
			break
		}
		next.parked = false
		done := func() bool { return next.done }
		in.blockOn(nil, done, "vRunGoroutines")
		me.vc.join(next.vc)
	}
}

// ---------- happens-before ----------

func (in *Interp) hbRelease(vc *vclock) {
	if in.cur == nil {
		return
	}
	vc.join(in.cur.vc)
	in.tick(in.cur)
}

func (in *Interp) hbAcquire(vc *vclock) {
	if in.cur == nil {
		return
	}
	in.cur.vc.join(*vc)
}

func (in *Interp) raceRead(c *Cell) {
	if !in.raceOn || in.cur == nil {
		return
	}
	t := in.cur
	if c.wEpoch.clk != 0 && c.wEpoch.tid != t.id && c.wEpoch.clk > t.vc.get(c.wEpoch.tid) {
		in.reportRace(c, c.wEpoch, "read")
	}
	for i := range c.rEpochs {
		if c.rEpochs[i].tid == t.id {
			c.rEpochs[i].clk = t.vc.get(t.id)
			c.rEpochs[i].pos = in.curPosStr()
			return
		}
	}
	c.rEpochs = append(c.rEpochs, epoch{t.id, t.vc.get(t.id), in.curPosStr()})
}

func (in *Interp) raceWrite(c *Cell) {
	if !in.raceOn || in.cur == nil {
		return
	}
	t := in.cur
	if c.wEpoch.clk != 0 && c.wEpoch.tid != t.id && c.wEpoch.clk > t.vc.get(c.wEpoch.tid) {
		in.reportRace(c, c.wEpoch, "write")
	}
	for _, r := range c.rEpochs {
		if r.tid != t.id && r.clk > t.vc.get(r.tid) {
			in.reportRace(c, r, "write")
		}
	}
	c.rEpochs = c.rEpochs[:0]
	c.wEpoch = epoch{t.id, t.vc.get(t.id), in.curPosStr()}
}

func (in *Interp) curPosStr() string {
	if in.cur == nil || in.cur.top == nil {
		return "?"
	}
	return in.posOf(in.cur.top)
}

func (in *Interp) reportRace(c *Cell, prev epoch, kind string) {
	if in.race != nil {
		return
	}
	in.race = &raceReport{a: fmt.Sprintf("T%d %s", prev.tid, prev.pos), b: fmt.Sprintf("T%d %s %s", in.cur.id, kind, in.curPosStr()), cell: c.String()}
	in.run.noteRace(in, in.race)
}

// ---------- sync objects (engine side, keyed by the address of the Go object) ----------

type mutexState struct {
	locked  bool
	readers int
	vc      vclock
}

type wgState struct {
	n  int
	vc vclock
}

type onceState struct {
	done    bool
	running bool
	vc      vclock
}

type condState struct {
	gen int
	vc  vclock
}

type poolState struct {
	items []Value
}

func (in *Interp) mutexOf(p *Ptr) *mutexState {
	c := in.concretePtr(in.nonNil(p, "mutex"), "mutex")
	m := in.mutexes[c]
	if m == nil {
		m = &mutexState{}
		in.mutexes[c] = m
	}
	return m
}

func (in *Interp) mutexLock(p *Ptr) {
	m := in.mutexOf(p)
	in.visible("mutex.lock")
	for m.locked || m.readers > 0 {
		in.blockOn(m, func() bool { return !m.locked && m.readers == 0 }, "mutex.lock")
	}
	m.locked = true
	in.traceOp("mutex.lock")
	in.hbAcquire(&m.vc)
}

func (in *Interp) mutexTryLock(p *Ptr) bool {
	m := in.mutexOf(p)
	in.visible("mutex.trylock")
	in.traceOp("mutex.trylock")
	if m.locked || m.readers > 0 {
		return false
	}
	m.locked = true
	in.hbAcquire(&m.vc)
	return true
}

func (in *Interp) mutexUnlock(p *Ptr) {
	m := in.mutexOf(p)
	in.visible("mutex.unlock")
	in.traceOp("mutex.unlock")
	if !m.locked {
		in.runtimePanic("sync: unlock of unlocked mutex")
	}
	in.hbRelease(&m.vc)
	m.locked = false
}

func stack() string {
	buf := make([]byte, 8192)
	return string(buf[:runtimeStack(buf)])
}

// noteAtomicLoad implements the fairness rule for busy-waiting: a thread whose recent atomic loads repeat
// with a period of at most 4 (three times over) while none of the cells changed is spinning; it is treated
// as blocked until one of those cells is written by somebody else.
func (in *Interp) noteAtomicLoad(c *Cell) {
	t := in.cur
	if t == nil {
		return
	}
	at := ""
	n0 := 0
	for fr := t.top; fr != nil && n0 < 5; fr = fr.caller {
		at += fmt.Sprintf("%p:%d;", fr.fn, fr.curPos)
		n0++
	}
	t.loads = append(t.loads, spinRec{c, c.ver, at})
	if len(t.loads) > 64 {
		t.loads = t.loads[len(t.loads)-32:]
	}
	n := len(t.loads)
	for p := 1; p <= 4; p++ {
		if n < 3*p {
			continue
		}
		ok := true
		for i := 0; i < 2*p && ok; i++ {
			a, b := t.loads[n-1-i], t.loads[n-1-i-p]
			if a.c != b.c || a.ver != b.ver || a.at != b.at {
				ok = false
			}
		}
		if !ok {
			continue
		}
		recs := append([]spinRec(nil), t.loads[n-p:]...)
		changed := func() bool {
			for _, r := range recs {
				if r.c.ver != r.ver {
					return true
				}
			}
			return false
		}
		if changed() {
			return
		}
		t.loads = t.loads[:0]
		// somebody else can still run: treat the spinner as blocked until one of the cells changes.
		// Nobody else can run (or sequential mode): a finite polling loop is legitimate, so let it go on,
		// but a loop that keeps spinning on unchanged cells is a livelock.
		others := false
		if in.par {
			for _, o := range in.threads {
				if o != t && in.enabled(o) {
					others = true
				}
			}
		}
		if !others {
			t.spinCnt++
			if t.spinCnt > 300 {
				in.blockOn(nil, changed, "spin-wait on unchanged atomic cell(s)")
			}
			return
		}
		in.blockOn(nil, changed, "spin-wait on unchanged atomic cell(s)")
		return
	}
}

func (in *Interp) noteAtomicWrite(c *Cell) {
	c.ver++
	if in.cur != nil {
		in.cur.loads = in.cur.loads[:0]
		in.cur.spinCnt = 0
	}
}
