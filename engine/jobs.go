package main

// Job registry: which harness functions, parameters and bounds make up each property's quick and
// thorough tier. Every number here is echoed into the evidence file.

import (
	"fmt"
	"sort"
)

const rootPkg = repoModule

type jobGen func(tier string) []*Job

var registry = map[string]jobGen{}

func allProps() []string {
	var ids []string
	for k := range registry {
		ids = append(ids, k)
	}
	sort.Strings(ids)
	return ids
}

func jobsFor(id, tier string) []*Job {
	g := registry[id]
	if g == nil {
		return nil
	}
	js := g(tier)
	for _, j := range js {
		j.Property = id
	}
	return js
}

func mk(name, pkg, fn string, params map[string]int, mod func(*Bounds)) *Job {
	b := defaultBounds()
	if mod != nil {
		mod(&b)
	}
	return &Job{Name: name, Pkg: pkg, Func: fn, Params: params, B: b}
}

func init() {
	registry["C18"] = func(tier string) []*Job {
		var js []*Job
		words := []int{8, 16}
		if tier == "thorough" {
			words = []int{8, 16, 32, 64}
		}
		for _, w := range words {
			j := mk(sprintf("c18.increment.w%d", w), rootPkg, "ZZ_C18_Increment", map[string]int{"words": w, "canary": 0}, nil)
			j.Labels = []string{"c18.no_undercount", "c18.other_key_never_lowers", "c18.reset.reached", "c18.noreset.reached", "c18.cap.after"}
			js = append(js, j)
			j = mk(sprintf("c18.reset.w%d", w), rootPkg, "ZZ_C18_Reset", map[string]int{"words": w}, func(b *Bounds) { b.Unwind = 70 })
			j.Labels = []string{"c18.reset.halves_every_counter", "c18.reset.halves_estimate"}
			js = append(js, j)
			j = mk(sprintf("c18.admit.w%d", w), rootPkg, "ZZ_C18_Admit", map[string]int{"words": w, "canary": 0}, nil)
			j.Labels = []string{"c18.admit.greater_admits", "c18.admit.only_if_greater_or_jitter"}
			js = append(js, j)
		}
		j := mk("c18.increment.canary", rootPkg, "ZZ_C18_Increment", map[string]int{"words": 8, "canary": 1}, nil)
		j.Canary = "c18.canary"
		js = append(js, j)
		j = mk("c18.admit.canary", rootPkg, "ZZ_C18_Admit", map[string]int{"words": 8, "canary": 1}, nil)
		j.Canary = "c18.admit.canary"
		js = append(js, j)
		js = append(js, mk("c18.uninit", rootPkg, "ZZ_C18_Uninit", nil, nil))
		maxM := 64
		if tier == "thorough" {
			maxM = 256
		}
		j = mk("c18.ensureCapacity", rootPkg, "ZZ_C18_EnsureCapacity", map[string]int{"maxM": maxM}, func(b *Bounds) { b.ConcretiseMax = 300; b.Unwind = 12 })
		j.Labels = []string{"c18.ensure.len", "c18.ensure.noshrink", "c18.ensure.zeroed"}
		js = append(js, j)
		return js
	}
}

func sprintf(f string, a ...interface{}) string { return fmt.Sprintf(f, a...) }
