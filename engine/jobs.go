package main

// Job registry: which harness functions, parameters and bounds make up each property's quick and
// thorough tier. Every number here is echoed into the evidence file.

import (
	"fmt"
	"sort"
)

const rootPkg = repoModule

type jobGen func(tier string) []*Job

var registry = map[string]jobGen{}

func allProps() []string {
	var ids []string
	for k := range registry {
		ids = append(ids, k)
	}
	sort.Strings(ids)
	return ids
}

// selftests: translator self-test scenarios run at the start of every check that uses the same units.
var selftestsFor = map[string][]string{
	"C13": {"wheel", "cache"}, "C15": {"map"}, "C16": {"mpsc"}, "C17": {"ring"}, "C18": {"sketch"},
}

func selftestJob(name string) *Job {
	var j *Job
	switch name {
	case "sketch":
		j = mk("selftest.sketch", rootPkg, "ZZ_Selftest_Sketch", nil, func(b *Bounds) { b.Unwind = 8 })
	case "cache":
		j = mk("selftest.cache", rootPkg, "ZZ_Selftest_Cache", nil, func(b *Bounds) { b.Unwind = 8 })
	case "wheel":
		j = mk("selftest.wheel", expPkg, "ZZ_Selftest_Wheel", nil, func(b *Bounds) { b.Unwind = 8 })
	case "mpsc":
		j = mk("selftest.mpsc", queuePkg, "ZZ_Selftest_MPSC", nil, func(b *Bounds) { b.Unwind = 8 })
	case "ring":
		j = mk("selftest.ring", lossyPkg, "ZZ_Selftest_Ring", nil, func(b *Bounds) { b.Unwind = 8; b.Procs = 1 })
	case "map":
		j = mk("selftest.map", hashmapPkg, "ZZ_Selftest_Map", nil, func(b *Bounds) { b.Unwind = 8 })
	}
	j.Selftest = true
	j.Desc = "translator self-test: deterministic scenario from the repository's own test inputs, engine trace compared with the native build's trace"
	return j
}

func jobsFor(id, tier string) []*Job {
	g := registry[id]
	if g == nil {
		return nil
	}
	js := g(tier)
	sts, ok := selftestsFor[id]
	if !ok {
		sts = []string{"cache"}
	}
	var pre []*Job
	for _, s := range sts {
		pre = append(pre, selftestJob(s))
	}
	js = append(pre, js...)
	for _, j := range js {
		j.Property = id
	}
	return js
}

func mk(name, pkg, fn string, params map[string]int, mod func(*Bounds)) *Job {
	b := defaultBounds()
	if mod != nil {
		mod(&b)
	}
	return &Job{Name: name, Pkg: pkg, Func: fn, Params: params, B: b}
}

func init() {
	registry["C18"] = func(tier string) []*Job {
		var js []*Job
		words := []int{8}
		if tier == "thorough" {
			words = []int{8, 16, 32}
		}
		for _, w := range words {
			j := mk(sprintf("c18.increment.w%d", w), rootPkg, "ZZ_C18_Increment", map[string]int{"words": w, "canary": 0}, nil)
			j.Labels = []string{"c18.no_undercount", "c18.other_key_never_lowers", "c18.reset.reached", "c18.noreset.reached", "c18.cap.after"}
			js = append(js, j)
			j = mk(sprintf("c18.reset.w%d", w), rootPkg, "ZZ_C18_Reset", map[string]int{"words": w}, func(b *Bounds) { b.Unwind = 70 })
			j.Labels = []string{"c18.reset.halves_every_counter", "c18.reset.halves_estimate"}
			js = append(js, j)
			j = mk(sprintf("c18.admit.w%d", w), rootPkg, "ZZ_C18_Admit", map[string]int{"words": w, "canary": 0}, nil)
			j.Labels = []string{"c18.admit.greater_admits", "c18.admit.only_if_greater_or_jitter"}
			js = append(js, j)
		}
		j := mk("c18.increment.canary", rootPkg, "ZZ_C18_Increment", map[string]int{"words": 8, "canary": 1}, nil)
		j.Canary = "c18.canary"
		js = append(js, j)
		j = mk("c18.admit.canary", rootPkg, "ZZ_C18_Admit", map[string]int{"words": 8, "canary": 1}, nil)
		j.Canary = "c18.admit.canary"
		js = append(js, j)
		js = append(js, mk("c18.uninit", rootPkg, "ZZ_C18_Uninit", nil, nil))
		maxM := 64
		if tier == "thorough" {
			maxM = 256
		}
		j = mk("c18.ensureCapacity", rootPkg, "ZZ_C18_EnsureCapacity", map[string]int{"maxM": maxM}, func(b *Bounds) { b.ConcretiseMax = 300; b.Unwind = 12 })
		j.Labels = []string{"c18.ensure.len", "c18.ensure.noshrink", "c18.ensure.zeroed"}
		js = append(js, j)
		// histories of increments and growths; hashes are the engine's concrete seed-dependent mixing function here (the
		// symbolic-hash variant of this harness did not finish within 30 minutes at 4 steps and is not registered)
		hs := 5
		if tier == "thorough" {
			hs = 7
		}
		hj := mk(sprintf("c18.history.concrete_hash.steps%d", hs), rootPkg, "ZZ_C18_History", map[string]int{"steps": hs, "symhash": 0}, func(b *Bounds) { b.Unwind = 12 })
		hj.Labels = []string{"c18h.estimate_at_least_times_recorded_since_growth"}
		js = append(js, hj)
		for _, j := range js {
			j.Prefer = "bits"
		}
		return js
	}
}

func cfgParams(expiry, refresh, bound, max, deferred, icap int) map[string]int {
	return map[string]int{"expiry": expiry, "refresh": refresh, "bound": bound, "max": max, "deferred": deferred, "icap": icap, "canary": 0, "stats": 0, "forcesym": 0}
}

func with(m map[string]int, kv ...interface{}) map[string]int {
	r := map[string]int{}
	for k, v := range m {
		r[k] = v
	}
	for i := 0; i+1 < len(kv); i += 2 {
		r[kv[i].(string)] = kv[i+1].(int)
	}
	return r
}

// failedLoadVsWriteJob: a failing load racing with an explicit write — shared by C09 (write stands), C10 (failed load
// leaves the cache unchanged) and C12 (deadlines of the written entry are exactly write time + duration).
func failedLoadVsWriteJob(prefix, tier string) *Job {
	p := 1
	if tier == "thorough" {
		p = 2
	}
	j := mk(sprintf("%s.failed_load_vs_write.pre%d", prefix, p), rootPkg, "ZZ_C09_FailedLoadVsWrite", nil,
		func(b *Bounds) { b.Unwind = 60; b.Preempt = p; b.Race = true; b.MaxPaths = 8000000; b.MaxWallS = 3000 })
	j.Labels = []string{"c09f.explicit_write_survives_the_failed_load", "c09f.failed_load_leaves_refresh_time_of_the_written_entry"}
	return j
}

// refreshJoinJob: explicit Refresh calls (and a Get) racing on one key — shared by C08 (joining) and C11 (one result per call).
func refreshJoinJob(prefix, tier string) *Job {
	rp := 1
	if tier == "thorough" {
		rp = 2
	}
	j := mk(sprintf("%s.refresh_join.pre%d", prefix, rp), rootPkg, "ZZ_C08_RefreshJoin", map[string]int{"canary": 0},
		func(b *Bounds) { b.Unwind = 60; b.Preempt = rp; b.Race = true; b.MaxPaths = 8000000; b.MaxWallS = 3000 })
	j.Labels = []string{"c08j.exactly_one_result_per_refresh_call", "c08j.no_inflight_record_left"}
	return j
}

func init() {
	registry["C12"] = func(tier string) []*Job {
		var js []*Job
		expNames := []string{"none", "creating", "writing", "accessing", "custom"}
		for _, exp := range []int{1, 2, 3, 4} {
			for op := 0; op <= 4; op++ {
				if tier == "quick" && op == 4 && exp != 3 {
					continue
				}
				bounds := []int{0}
				if tier == "thorough" {
					bounds = []int{0, 1, 2}
				}
				for _, bd := range bounds {
					j := mk(sprintf("c12.expiry.%s.op%d.b%d", expNames[exp], op, bd), rootPkg, "ZZ_C12_Expiry",
						with(cfgParams(exp, 0, bd, 10, 1, 0), "op", op), nil)
					js = append(js, j)
				}
			}
		}
		for _, ref := range []int{1, 2, 3} {
			for op := 0; op <= 2; op++ {
				j := mk(sprintf("c12.refresh.r%d.op%d", ref, op), rootPkg, "ZZ_C12_Refresh",
					with(cfgParams(0, ref, 0, 10, 1, 0), "op", op), nil)
				js = append(js, j)
			}
		}
		js = append(js, failedLoadVsWriteJob("c12", tier))
		j := mk("c12.canary", rootPkg, "ZZ_C12_Expiry", with(cfgParams(2, 0, 0, 10, 1, 0), "op", 0, "canary", 1), nil)
		j.Canary = "c12.canary"
		js = append(js, j)
		return js
	}
}

func init() {
	registry["C03"] = func(tier string) []*Job {
		var js []*Job
		expNames := []string{"none", "creating", "writing", "accessing", "custom"}
		exps := []int{2, 3, 4}
		if tier == "thorough" {
			exps = []int{1, 2, 3, 4}
		}
		for _, exp := range exps {
			refs := []int{0}
			bounds := []int{0}
			if tier == "thorough" {
				refs = []int{0, 2}
				bounds = []int{0, 1}
			}
			for _, ref := range refs {
				for _, bd := range bounds {
					j := mk(sprintf("c03.%s.r%d.b%d", expNames[exp], ref, bd), rootPkg, "ZZ_C03_ExpiredUnswept",
						with(cfgParams(exp, ref, bd, 10, 1, 0), "op", -1), func(b *Bounds) { b.Unwind = 8 })
					js = append(js, j)
				}
			}
		}
		for _, c := range []seqCfg{{"bse_writing_max10", 2, 0, 1, 10}, {"bse_accessing_max2", 3, 0, 1, 2}} {
			js = append(js, mk("c03.sync."+c.name, rootPkg, "ZZ_C03_Sync", with(cfgParams(c.exp, c.ref, c.bound, c.max, 0, 0), "steps", 1), func(b *Bounds) { b.Unwind = 70 }))
		}
		// the clock crosses a deadline while an iteration is in progress (symbolic clock, symbolic durations)
		iexps := []int{2}
		if tier == "thorough" {
			iexps = []int{1, 2, 3, 4}
		}
		for _, exp := range iexps {
			nk := 2
			j := mk(sprintf("c03.iter_advancing.%s.k%d", expNames[exp], nk), rootPkg, "ZZ_C03_IterAdvancing",
				with(cfgParams(exp, 0, 0, 10, 1, 0), "nkeys", nk), func(b *Bounds) { b.Unwind = 8 })
			j.Labels = []string{"c03i.second_yield_reached", "c03i.iter.never_yields_an_entry_whose_deadline_has_been_reached"}
			js = append(js, j)
		}
		if tier == "thorough" {
			j := mk("c03.iter_advancing.writing.k3", rootPkg, "ZZ_C03_IterAdvancing",
				with(cfgParams(2, 0, 0, 10, 1, 0), "nkeys", 3), func(b *Bounds) { b.Unwind = 8 })
			js = append(js, j)
		}
		// over schedules: two threads, one operation each (loader-backed Get and cancelled computations included), on a key
		// whose entry has expired but has not been swept: no result may contain the dead value (it is absent in the
		// sequential specification the history is checked against — C02's harness, configuration "expired_unswept")
		pp := 1
		if tier == "thorough" {
			pp = 2
		}
		js = append(js, mk(sprintf("c03.par.expired_unswept.t2.ops1.pre%d", pp), rootPkg, "ZZ_C02_Linearizable",
			map[string]int{"threads": 2, "ops_per_thread": 1, "samekey": 1, "canary": 0, "cfg": 1},
			func(b *Bounds) { b.Unwind = 60; b.Preempt = pp; b.Race = true; b.MaxPaths = 8000000; b.MaxWallS = 3000 }))
		j := mk("c03.canary", rootPkg, "ZZ_C03_ExpiredUnswept", with(cfgParams(2, 0, 0, 10, 1, 0), "op", 0, "canary", 1), func(b *Bounds) { b.Unwind = 8 })
		j.Canary = "c03.canary"
		js = append(js, j)
		return js
	}
}

func init() {
	registry["C01"] = func(tier string) []*Job {
		var js []*Job
		type cf struct {
			name                 string
			exp, ref, bound, max int
		}
		cfgs := []cf{{"be_accessing", 3, 0, 0, 0}, {"bew_custom", 4, 0, 2, 100}}
		if tier == "thorough" {
			cfgs = nil
			for _, bd := range []int{0, 1, 2} {
				for exp := 0; exp <= 4; exp++ {
					for _, ref := range []int{0, 1, 2} {
						cfgs = append(cfgs, cf{sprintf("b%d.e%d.r%d", bd, exp, ref), exp, ref, bd, 100})
					}
				}
			}
		}
		midset := 3
		if tier == "thorough" {
			midset = -1
		}
		for _, c := range cfgs {
			// Set(1); op1 on key 1|2; op2 on key 1: every ordered pair of the 22 operations (thorough);
			// quick: op1 from 8 representative operations
			p := with(cfgParams(c.exp, c.ref, c.bound, c.max, 1, 0), "symtime", 1, "steps", 3, "nkeys", 2, "prefixset", 2, "opset", 0, "firstop", 0, "lastkeys", 1, "midset", midset)
			j := mk("c01.sym."+c.name, rootPkg, "ZZ_C01_Seq", p, func(b *Bounds) { b.Unwind = 8; b.MaxPaths = 400000; b.MaxWallS = 900 })
			js = append(js, j)
		}
		if tier == "thorough" {
			for _, c := range []cf{{"be_writing", 2, 0, 0, 0}, {"be_accessing", 3, 0, 0, 0}, {"bew_custom", 4, 0, 2, 100}, {"ber", 1, 2, 0, 0}} {
				p := with(cfgParams(c.exp, c.ref, c.bound, c.max, 1, 0), "symtime", 1, "steps", 3, "nkeys", 2, "prefixset", 2, "opset", 0, "firstop", -1, "lastkeys", 2, "midset", -1)
				j := mk("c01.sym3."+c.name, rootPkg, "ZZ_C01_Seq", p, func(b *Bounds) { b.Unwind = 8; b.MaxPaths = 2000000; b.MaxWallS = 1500 })
				js = append(js, j)
			}
		}
		// family S2: same-goroutine executor (maintenance runs inside the operations), concrete clock offsets
		// around the deadlines, symbolic weights, CleanUp among the operations
		type cf2 struct {
			name                 string
			exp, ref, bound, max int
		}
		s2 := []cf2{{"bs_max2", 0, 0, 1, 2}, {"bse_writing_max2", 2, 0, 1, 2}, {"bew_accessing_w100", 3, 0, 2, 100}}
		if tier == "thorough" {
			s2 = append(s2, cf2{"be_custom", 4, 0, 0, 0}, cf2{"bser_max1", 1, 2, 1, 1}, cf2{"bw_w100", 0, 0, 2, 100}, cf2{"bse_accessing_max3", 3, 0, 1, 3})
		}
		for _, c := range s2 {
			steps := 1
			if tier == "thorough" && c.bound != 2 {
				steps = 2
			}
			p := with(cfgParams(c.exp, c.ref, c.bound, c.max, 0, 0), "steps", steps)
			j := mk("c01.sync."+c.name, rootPkg, "ZZ_C01_Sync", p, func(b *Bounds) { b.Unwind = 70; b.MaxPaths = 400000; b.MaxWallS = 900 })
			js = append(js, j)
		}
		j := mk("c01.canary", rootPkg, "ZZ_C01_Seq", with(cfgParams(2, 0, 0, 0, 1, 0), "symtime", 1, "steps", 2, "nkeys", 1, "prefixset", 2, "opset", 2, "canary", 1, "firstop", 0, "lastkeys", 1, "midset", -1), func(b *Bounds) { b.Unwind = 8 })
		j.Canary = "c01.canary"
		js = append(js, j)
		return js
	}
}

type seqCfg struct {
	name                 string
	exp, ref, bound, max int
}

func init() {
	syncJobs := func(prop, fn string, cfgs []seqCfg, steps int, extra ...interface{}) []*Job {
		var js []*Job
		for _, c := range cfgs {
			p := with(with(cfgParams(c.exp, c.ref, c.bound, c.max, 0, 0), "steps", steps), extra...)
			j := mk(sprintf("%s.sync.%s", prop, c.name), rootPkg, fn, p, func(b *Bounds) { b.Unwind = 70; b.MaxPaths = 600000; b.MaxWallS = 1500 })
			js = append(js, j)
		}
		return js
	}
	symJobs := func(prop, fn string, cfgs []seqCfg, midset int, deferred int) []*Job {
		var js []*Job
		for _, c := range cfgs {
			p := with(cfgParams(c.exp, c.ref, c.bound, c.max, deferred, 0), "symtime", 1, "steps", 3, "nkeys", 2, "prefixset", 2, "opset", 0, "firstop", 0, "lastkeys", 1, "midset", midset)
			j := mk(sprintf("%s.sym.%s", prop, c.name), rootPkg, fn, p, func(b *Bounds) { b.Unwind = 8; b.MaxPaths = 600000; b.MaxWallS = 1500 })
			js = append(js, j)
		}
		return js
	}
	registry["C06"] = func(tier string) []*Job {
		cfgs := []seqCfg{{"b_nomaint", 0, 0, 0, 0}, {"bs_max1", 0, 0, 1, 1}, {"bse_writing_max2", 2, 0, 1, 2}}
		steps := 1
		if tier == "thorough" {
			cfgs = append(cfgs, seqCfg{"bs_max2", 0, 0, 1, 2}, seqCfg{"be_accessing", 3, 0, 0, 0}, seqCfg{"bew_w100", 3, 0, 2, 100}, seqCfg{"bser_max2", 1, 2, 1, 2})
			steps = 2
		}
		js := syncJobs("c06", "ZZ_C06_Sync", cfgs, steps)
		mid := 3
		if tier == "thorough" {
			mid = -1
		}
		js = append(js, symJobs("c06", "ZZ_C06_Sym", []seqCfg{{"b_nomaint", 0, 0, 0, 0}, {"be_writing", 2, 0, 0, 0}, {"bw_w100_pending", 0, 0, 2, 100}}, mid, 1)...)
		pp := 1
		maxes := []int{1}
		if tier == "thorough" {
			maxes = []int{1, 2}
		}
		for _, mx := range maxes {
			js = append(js, mk(sprintf("c06.par.max%d.pre%d", mx, pp), rootPkg, "ZZ_C06_Par", map[string]int{"max": mx},
				func(b *Bounds) { b.Unwind = 140; b.Preempt = pp; b.Race = true; b.MaxPaths = 8000000; b.MaxWallS = 3000 }))
		}
		c := syncJobs("c06", "ZZ_C06_Sync", []seqCfg{{"canary", 0, 0, 1, 1}}, 1, "canary", 1)[0]
		c.Canary = "c06.canary"
		return append(js, c)
	}
	registry["C07"] = func(tier string) []*Job {
		cfgs := []seqCfg{{"bs_max1", 0, 0, 1, 1}, {"bs_max2", 0, 0, 1, 2}, {"bw_w100", 0, 0, 2, 100}, {"b_unbounded", 0, 0, 0, 0}}
		steps := 1
		if tier == "thorough" {
			cfgs = append(cfgs, seqCfg{"bse_writing_max2", 2, 0, 1, 2}, seqCfg{"bew_accessing_w100", 3, 0, 2, 100}, seqCfg{"bw_w3", 0, 0, 2, 3}, seqCfg{"bs_max3", 0, 0, 1, 3})
		}
		js := syncJobs("c07", "ZZ_C07_Sync", cfgs, steps)
		if tier == "thorough" {
			js = append(js, syncJobs("c07", "ZZ_C07_Sync", []seqCfg{{"bs_max1.s2", 0, 0, 1, 1}, {"bs_max2.s2", 0, 0, 1, 2}}, 2)...)
		}
		// deadlines moved by reads (access-reset expiry), symbolic clock: an Expiration report only once the exact deadline passed
		smid := 3
		scfgs := []seqCfg{{"be_accessing", 3, 0, 0, 0}}
		if tier == "thorough" {
			smid = -1
			scfgs = append(scfgs, seqCfg{"be_custom", 4, 0, 0, 0}, seqCfg{"be_writing", 2, 0, 0, 0})
		}
		js = append(js, symJobs("c07", "ZZ_C07_Sym", scfgs[:1], smid, 1)...)
		// (the custom and write-reset configurations with every middle operation ran past 20 minutes on the loaded
		// machine: registered with the representative middle operations)
		js = append(js, symJobs("c07", "ZZ_C07_Sym", scfgs[1:], 3, 1)...)
		js = append(js, policyJobs("c07", tier)...)
		// "Expiration only if the deadline had passed", at the level of the timer wheel: one level's sweep from an arbitrary
		// placement-consistent state (C13's sweep lemma; the label of interest here is c13.sweep.fires_only_expired)
		levels := []int{0, 1}
		if tier == "thorough" {
			levels = []int{0, 1, 2, 3, 4}
		}
		for _, L := range levels {
			md := 0
			if tier == "quick" {
				md = 3
			}
			j := mk(sprintf("c07.wheel_sweep.level%d.maxdelta%d", L, md), expPkg, "ZZ_C13_Sweep", map[string]int{"level": L, "maxdelta": md, "canary": 0, "extended": 0},
				func(b *Bounds) { b.Unwind = 70; b.MaxPaths = 500000; b.MaxWallS = 1500 })
			j.Labels = []string{"c13.sweep.fires_only_expired"}
			j.Prefer = "bits"
			js = append(js, j)
		}
		c := syncJobs("c07", "ZZ_C07_Sync", []seqCfg{{"canary", 0, 0, 1, 1}}, 1, "canary", 1)[0]
		c.Canary = "c07.canary"
		return append(js, c)
	}
	registry["C20"] = func(tier string) []*Job {
		cfgs := []seqCfg{{"b", 0, 0, 0, 0}, {"bs_max1", 0, 0, 1, 1}, {"bse_writing_max2", 2, 0, 1, 2}}
		steps := 1
		if tier == "thorough" {
			cfgs = append(cfgs, seqCfg{"bw_w100", 0, 0, 2, 100}, seqCfg{"be_accessing", 3, 0, 0, 0}, seqCfg{"bs_max2", 0, 0, 1, 2})
			steps = 2
		}
		js := syncJobs("c20", "ZZ_C20_Sync", cfgs, steps)
		mid := 3
		if tier == "thorough" {
			mid = -1
		}
		js = append(js, symJobs("c20", "ZZ_C20_Sym", []seqCfg{{"be_writing", 2, 0, 0, 0}, {"bw_w10_pending", 0, 0, 2, 10}}, mid, 1)...)
		// loaders: single/bulk loads, explicit and automatic refreshes, every outcome incl. panics (concrete clock)
		lsteps := 2 // (three steps: ~170 000 paths per configuration, not validated within this session; both tiers run two)
		for _, lc := range []struct {
			name          string
			ref, deferred int
		}{{"plain_inline", 0, 0}, {"refresh_writing_inline", 2, 0}, {"refresh_writing_deferred", 2, 1}} {
			j := mk("c20.loads."+lc.name, rootPkg, "ZZ_C20_Loads", with(cfgParams(0, lc.ref, 0, 0, lc.deferred, 0), "steps", lsteps),
				func(b *Bounds) { b.Unwind = 16; b.MapOrders = 2 })
			j.Labels = []string{"c20l.stats.loads_equal_loader_invocations", "c20l.loader_panic_surfaces"}
			js = append(js, j)
		}
		ap := 2
		if tier == "thorough" {
			ap = 3
		}
		for _, th := range []int{2, 3} {
			if th == 3 && tier == "quick" {
				continue
			}
			j := mk(sprintf("c20.adder.t%d.pre%d", th, ap), repoModule+"/internal/xsync", "ZZ_C20_Adder", map[string]int{"threads": th, "adds": 2, "canary": 0},
				func(b *Bounds) { b.Unwind = 20; b.Preempt = ap; b.Race = true; b.Procs = 2; b.MaxPaths = 4000000; b.MaxWallS = 2400 })
			j.Prefer = "bits"
			js = append(js, j)
		}
		ac := mk("c20.adder.canary", repoModule+"/internal/xsync", "ZZ_C20_Adder", map[string]int{"threads": 2, "adds": 1, "canary": 1},
			func(b *Bounds) { b.Unwind = 20; b.Preempt = 0; b.Race = true; b.Procs = 2 })
		ac.Canary = "c20.adder.canary"
		js = append(js, ac)
		cpp := 1
		if tier == "thorough" {
			cpp = 2
		}
		js = append(js, mk(sprintf("c20.par.pre%d", cpp), rootPkg, "ZZ_C20_Par", nil, func(b *Bounds) { b.Unwind = 60; b.Preempt = cpp; b.Race = true; b.Procs = 2; b.MaxPaths = 6000000; b.MaxWallS = 2400 }))
		c := syncJobs("c20", "ZZ_C20_Sync", []seqCfg{{"canary", 0, 0, 1, 1}}, 1, "canary", 1)[0]
		c.Canary = "c20.canary"
		return append(js, c)
	}
}

func init() {
	registry["C10"] = func(tier string) []*Job {
		var js []*Job
		cfgs := []seqCfg{{"be_writing", 2, 0, 0, 0}, {"b", 0, 0, 0, 0}}
		reqlen := 3
		if tier == "thorough" {
			cfgs = append(cfgs, seqCfg{"be_accessing", 3, 0, 0, 0}, seqCfg{"bse_writing", 2, 0, 1, 10}, seqCfg{"ber", 1, 2, 0, 0})
			reqlen = 4
		}
		for _, c := range cfgs {
			rl := reqlen
			if tier == "quick" && c.exp != 0 {
				rl = 2 // quick: request lists of 2 on the expiring configuration, 3 on the plain one
			}
			j := mk("c10.bulk."+c.name, rootPkg, "ZZ_C10_Bulk", with(cfgParams(c.exp, c.ref, c.bound, c.max, 1, 0), "reqlen", rl),
				func(b *Bounds) { b.Unwind = 12; b.MaxPaths = 600000; b.MaxWallS = 1500; b.MapOrders = 2 })
			js = append(js, j)
			j = mk("c10.single."+c.name, rootPkg, "ZZ_C10_Single", cfgParams(c.exp, c.ref, c.bound, c.max, 1, 0), func(b *Bounds) { b.Unwind = 12 })
			js = append(js, j)
		}
		js = append(js, mk("c10.bulkstale.r_writing", rootPkg, "ZZ_C10_BulkStale", cfgParams(0, 2, 0, 0, 0, 0), func(b *Bounds) { b.Unwind = 12; b.MapOrders = 2 }))
		js = append(js, mk("c10.bulkstale.r_creating", rootPkg, "ZZ_C10_BulkStale", cfgParams(0, 1, 0, 0, 0, 0), func(b *Bounds) { b.Unwind = 12; b.MapOrders = 2 }))
		vp := 2 // (bound 3 ran past 16 minutes on the loaded machine without finishing: both tiers run bound 2)
		vj := mk(sprintf("c10.volunteer_vs_load.pre%d", vp), rootPkg, "ZZ_C10_VolunteerVsLoad", nil,
			func(b *Bounds) { b.Unwind = 60; b.Preempt = vp; b.Race = true; b.MapOrders = 2; b.MaxPaths = 8000000; b.MaxWallS = 3000 })
		vj.Labels = []string{"c10v.volunteered_key_is_cached", "c10v.volunteered_value_cached_when_the_single_load_failed_or_never_ran"}
		js = append(js, vj)
		js = append(js, failedLoadVsWriteJob("c10", tier))
		j := mk("c10.canary", rootPkg, "ZZ_C10_Bulk", with(cfgParams(2, 0, 0, 0, 1, 0), "reqlen", 2, "canary", 1), func(b *Bounds) { b.Unwind = 12 })
		j.Canary = "c10.canary"
		return append(js, j)
	}
}

func init() {
	registry["C11"] = func(tier string) []*Job {
		var js []*Job
		type rc struct {
			name     string
			exp, ref int
		}
		cfgs := []rc{{"r_writing", 0, 2}, {"er_custom_writing", 2, 3}, {"er_accessing_creating", 3, 1}}
		if tier == "thorough" {
			cfgs = append(cfgs, rc{"r_creating", 0, 1}, rc{"r_custom", 0, 3}, rc{"er_creating_writing", 1, 2}, rc{"er_custom_custom", 4, 3})
		}
		for _, c := range cfgs {
			for _, def := range []int{0, 1} {
				if def == 0 && c.exp != 0 {
					continue // sync executor + expiry: the sweep with a symbolic clock is C13's subject
				}
				j := mk(sprintf("c11.get.%s.def%d", c.name, def), rootPkg, "ZZ_C11_Get", cfgParams(c.exp, c.ref, 0, 0, def, 0), func(b *Bounds) { b.Unwind = 12 })
				js = append(js, j)
				j = mk(sprintf("c11.manual.%s.def%d", c.name, def), rootPkg, "ZZ_C11_Manual", cfgParams(c.exp, c.ref, 0, 0, def, 0), func(b *Bounds) { b.Unwind = 12 })
				js = append(js, j)
			}
		}
		if tier == "debug" {
			js = append(js, mk("c11.debugsym", rootPkg, "ZZ_C11_Manual", with(cfgParams(2, 3, 0, 0, 1, 0), "forcesym", 1), func(b *Bounds) { b.Unwind = 12 }))
		}
		for _, def := range []int{0, 1} {
			js = append(js, mk(sprintf("c11.bulk.r_writing.def%d", def), rootPkg, "ZZ_C11_Bulk", cfgParams(0, 2, 0, 0, def, 0), func(b *Bounds) { b.Unwind = 12; b.MapOrders = 2 }))
		}
		if tier == "thorough" {
			js = append(js, mk("c11.bulk.r_creating.def1", rootPkg, "ZZ_C11_Bulk", cfgParams(0, 1, 0, 0, 1, 0), func(b *Bounds) { b.Unwind = 12; b.MapOrders = 2 }))
			js = append(js, mk("c11.bulk.r_custom.def0", rootPkg, "ZZ_C11_Bulk", cfgParams(0, 3, 0, 0, 0, 0), func(b *Bounds) { b.Unwind = 12; b.MapOrders = 2 }))
		}
		js = append(js, mk("c11.manual.norefresh", rootPkg, "ZZ_C11_Manual", cfgParams(2, 0, 0, 0, 1, 0), func(b *Bounds) { b.Unwind = 12 }))
		js = append(js, refreshJoinJob("c11", tier))
		j := mk("c11.canary", rootPkg, "ZZ_C11_Get", with(cfgParams(0, 2, 0, 0, 1, 0), "canary", 1), func(b *Bounds) { b.Unwind = 12 })
		j.Canary = "c11.canary"
		return append(js, j)
	}
}

func init() {
	registry["C19"] = func(tier string) []*Job {
		var js []*Job
		cfgs := []seqCfg{{"be_writing", 2, 0, 0, 0}, {"br_writing", 0, 2, 0, 0}, {"bs_max4", 0, 0, 1, 4}}
		nset := 2
		if tier == "thorough" {
			cfgs = append(cfgs, seqCfg{"ber_accessing", 3, 2, 0, 0}, seqCfg{"bwe_w100", 2, 0, 2, 100}, seqCfg{"b", 0, 0, 0, 0}, seqCfg{"ber_custom", 4, 3, 0, 0}, seqCfg{"bse_max4", 2, 0, 1, 4}, seqCfg{"bw_w100", 0, 0, 2, 100}, seqCfg{"bser_max2", 1, 2, 1, 2})
			nset = 3
		}
		for _, c := range cfgs {
			tmaxes := []int{0}
			if c.bound != 0 {
				tmaxes = []int{0, 1, 2}
			}
			for _, tm := range tmaxes {
				ov := 0
				if c.exp != 0 {
					ov = 1
				}
				def := 1 // unbounded: symbolic clock, deferred executor (no sweep); bounded: concrete clock, sync executor
				if c.bound != 0 {
					def = 0
				}
				j := mk(sprintf("c19.%s.tmax%d", c.name, tm), rootPkg, "ZZ_C19_SaveLoad",
					with(cfgParams(c.exp, c.ref, c.bound, c.max, def, 0), "nset", nset, "tmax", tm, "override", ov),
					func(b *Bounds) { b.Unwind = 70; b.MaxPaths = 600000; b.MaxWallS = 1200 })
				js = append(js, j)
			}
		}
		// weighted caches, three distinct keys with symbolic weights (zero and oversized weights included), no clock movement
		for _, tm := range []int{0, 1} {
			js = append(js, mk(sprintf("c19.bw_w10.lean.tmax%d", tm), rootPkg, "ZZ_C19_SaveLoad",
				with(cfgParams(0, 0, 2, 10, 0, 0), "nset", 3, "tmax", tm, "override", 0, "lean", 1),
				func(b *Bounds) { b.Unwind = 70; b.MaxPaths = 600000; b.MaxWallS = 1200 }))
		}
		// expiry and refresh together on a bounded cache (concrete clock), with a per-entry refresh override of symbolic
		// length: refresh deadlines before, at and after the expiration deadline
		js = append(js, mk("c19.bser_max4.roverride.tmax0", rootPkg, "ZZ_C19_SaveLoad",
			with(cfgParams(1, 2, 1, 4, 0, 0), "nset", 2, "tmax", 0, "override", 0, "roverride", 1),
			func(b *Bounds) { b.Unwind = 70; b.MaxPaths = 600000; b.MaxWallS = 1200 }))
		for _, j := range js {
			if _, ok := j.Params["roverride"]; !ok {
				j.Params["roverride"] = 0
			}
			if j.Params["bound"] == 0 {
				j.Prefer = "int"
			}
			if _, ok := j.Params["lean"]; !ok {
				j.Params["lean"] = 0
			}
		}
		j := mk("c19.canary", rootPkg, "ZZ_C19_SaveLoad", with(cfgParams(2, 0, 0, 0, 1, 0), "nset", 1, "tmax", 0, "override", 0, "canary", 1, "lean", 0, "roverride", 0), func(b *Bounds) { b.Unwind = 70 })
		j.Canary = "c19.canary"
		return append(js, j)
	}
}

const expPkg = repoModule + "/internal/expiration"

func init() {
	registry["C13"] = func(tier string) []*Job {
		var js []*Job
		js = append(js, mk("c13.tables", expPkg, "ZZ_C13_Tables", nil, func(b *Bounds) { b.Unwind = 8 }))
		j := mk("c13.placement", expPkg, "ZZ_C13_Placement", map[string]int{"canary": 0}, func(b *Bounds) { b.Unwind = 8; b.ConcretiseMax = 8 })
		j.Labels = []string{"c13.placement.bucket", "c13.placement.invariant", "c13.placement.linked"}
		js = append(js, j)
		j = mk("c13.placement.canary", expPkg, "ZZ_C13_Placement", map[string]int{"canary": 1}, func(b *Bounds) { b.Unwind = 8; b.ConcretiseMax = 8 })
		j.Canary = "c13.placement.canary"
		js = append(js, j)
		for L := 0; L <= 4; L++ {
			md := 0
			if tier == "quick" && L <= 2 {
				md = 3
			}
			j := mk(sprintf("c13.sweep.level%d.maxdelta%d", L, md), expPkg, "ZZ_C13_Sweep", map[string]int{"level": L, "maxdelta": md, "canary": 0, "extended": 0},
				func(b *Bounds) { b.Unwind = 70; b.MaxPaths = 500000; b.MaxWallS = 1500 })
			j.Labels = []string{"c13.sweep.progress_within_one_tick", "c13.sweep.fires_only_expired", "c13.sweep.invariant_reestablished"}
			js = append(js, j)
		}
		// the same sweep when a read has extended the deadline and its re-scheduling event was dropped (timer still in the
		// bucket of the old deadline)
		xl := []int{0, 1}
		if tier == "thorough" {
			xl = []int{0, 1, 2, 3}
		}
		for _, L := range xl {
			md := 0
			if tier == "quick" {
				md = 3
			}
			j := mk(sprintf("c13.sweep_extended.level%d.maxdelta%d", L, md), expPkg, "ZZ_C13_Sweep", map[string]int{"level": L, "maxdelta": md, "canary": 0, "extended": 1},
				func(b *Bounds) { b.Unwind = 70; b.MaxPaths = 500000; b.MaxWallS = 1500 })
			j.Labels = []string{"c13.sweep.fires_only_expired", "c13.sweep.invariant_reestablished"}
			js = append(js, j)
		}
		j = mk("c13.sweep.canary", expPkg, "ZZ_C13_Sweep", map[string]int{"level": 1, "maxdelta": 2, "canary": 1, "extended": 0}, func(b *Bounds) { b.Unwind = 70 })
		j.Canary = "c13.sweep.canary"
		js = append(js, j)
		for _, j := range js {
			j.Prefer = "bits"
		}
		steps := 2
		if tier == "thorough" {
			steps = 3
		}
		for _, re := range []int{0, 1} {
			js = append(js, mk(sprintf("c13.cache.readsextend%d", re), rootPkg, "ZZ_C13_Cache", map[string]int{"nkeys": 2, "steps": steps, "readsextend": re, "canary": 0, "jumpset": 0},
				func(b *Bounds) { b.Unwind = 70; b.MaxPaths = 500000 }))
		}
		// clock jumps of exactly one full turn of a wheel level (and one tick around it), through CleanUp
		js = append(js, mk("c13.cache.full_turn_jumps", rootPkg, "ZZ_C13_Cache", map[string]int{"nkeys": 2, "steps": steps, "readsextend": 0, "canary": 0, "jumpset": 1},
			func(b *Bounds) { b.Unwind = 70; b.MaxPaths = 500000 }))
		rp := 2
		if tier == "thorough" {
			rp = 3
		}
		js = append(js, mk(sprintf("c13.race.pre%d", rp), rootPkg, "ZZ_C13_Race", nil,
			func(b *Bounds) { b.Unwind = 140; b.Preempt = rp; b.Race = true; b.MaxPaths = 6000000; b.MaxWallS = 2400 }))
		cj := mk("c13.cache.canary", rootPkg, "ZZ_C13_Cache", map[string]int{"nkeys": 1, "steps": 1, "readsextend": 0, "canary": 1, "jumpset": 0}, func(b *Bounds) { b.Unwind = 70 })
		cj.Canary = "c13.cache.canary"
		js = append(js, cj)
		return js
	}
}

const lossyPkg = repoModule + "/internal/lossy"

func init() {
	registry["C17"] = func(tier string) []*Job {
		var js []*Job
		js = append(js, mk("c17.ring.seq", lossyPkg, "ZZ_C17_RingSeq", map[string]int{"canary": 0}, func(b *Bounds) { b.Unwind = 20 }))
		c := mk("c17.ring.seq.canary", lossyPkg, "ZZ_C17_RingSeq", map[string]int{"canary": 1}, func(b *Bounds) { b.Unwind = 20 })
		c.Canary = "c17.seq.canary"
		js = append(js, c)
		pre := 2
		if tier == "thorough" {
			pre = 3
		}
		for _, prefill := range []int{0, 15} {
			j := mk(sprintf("c17.ring.par.p2.prefill%d", prefill), lossyPkg, "ZZ_C17_RingPar",
				map[string]int{"producers": 2, "adds_per_producer": 1, "prefill": prefill, "canary": 0},
				func(b *Bounds) { b.Unwind = 20; b.Preempt = pre; b.Race = true; b.MaxPaths = 2000000; b.MaxWallS = 1500 })
			js = append(js, j)
		}
		if tier == "thorough" {
			js = append(js, mk("c17.ring.par.p2x2", lossyPkg, "ZZ_C17_RingPar", map[string]int{"producers": 2, "adds_per_producer": 2, "prefill": 14, "canary": 0},
				func(b *Bounds) { b.Unwind = 20; b.Preempt = 2; b.Race = true; b.MaxPaths = 3000000; b.MaxWallS = 2400 }))
			js = append(js, mk("c17.ring.par.p3", lossyPkg, "ZZ_C17_RingPar", map[string]int{"producers": 3, "adds_per_producer": 1, "prefill": 14, "canary": 0},
				func(b *Bounds) { b.Unwind = 20; b.Preempt = 2; b.Race = true; b.MaxPaths = 3000000; b.MaxWallS = 2400 }))
		}
		c = mk("c17.ring.par.canary", lossyPkg, "ZZ_C17_RingPar", map[string]int{"producers": 2, "adds_per_producer": 1, "prefill": 0, "canary": 1},
			func(b *Bounds) { b.Unwind = 20; b.Preempt = 1; b.Race = true })
		c.Canary = "c17.par.canary"
		js = append(js, c)
		for _, n := range []int{2, 4} {
			js = append(js, mk(sprintf("c17.striped.state.stripes%d", n), lossyPkg, "ZZ_C17_StripedState", map[string]int{"stripes": n}, func(b *Bounds) { b.Unwind = 40; b.Procs = 1 }))
		}
		js = append(js, mk("c17.striped.seq", lossyPkg, "ZZ_C17_StripedSeq", map[string]int{"maxlen": 4, "adds": 4}, func(b *Bounds) { b.Unwind = 20; b.Procs = 1 }))
		for _, p := range []int{0, 1} {
			js = append(js, mk(sprintf("c17.striped.par.pre%d", p), lossyPkg, "ZZ_C17_StripedPar", map[string]int{"maxlen": 4, "pre": p},
				func(b *Bounds) { b.Unwind = 20; b.Preempt = pre; b.Race = true; b.MaxPaths = 2000000; b.MaxWallS = 1500 }))
		}
		// (four producers with three pre-emptions did not finish in 25 minutes)
		gp, gn := 2, 3
		if tier == "thorough" {
			gp, gn = 3, 3
		}
		js = append(js, mk(sprintf("c17.striped.grow.producers%d.pre%d", gn, gp), lossyPkg, "ZZ_C17_StripedGrow", map[string]int{"producers": gn, "stripe1": 0},
			func(b *Bounds) { b.Unwind = 20; b.Preempt = gp; b.Race = true; b.MaxPaths = 20000000; b.MaxWallS = 3000 }))
		// the second stripe holds a drained (present, empty) ring when the table is doubled
		// (bound 2 in both tiers: bound 3 of this variant was not validated within the session)
		js = append(js, mk(sprintf("c17.striped.grow.drained_stripe.producers%d.pre%d", gn, 2), lossyPkg, "ZZ_C17_StripedGrow", map[string]int{"producers": gn, "stripe1": 1},
			func(b *Bounds) { b.Unwind = 20; b.Preempt = 2; b.Race = true; b.MaxPaths = 20000000; b.MaxWallS = 3000 }))
		for _, j := range js {
			j.Prefer = "bits"
		}
		satSteps := 1
		if tier == "thorough" {
			satSteps = 2
		}
		for _, c := range []seqCfg{{"bs_max10", 0, 0, 1, 10}, {"bse_accessing_max10", 3, 0, 1, 10}} {
			js = append(js, mk("c17.cache.saturated."+c.name, rootPkg, "ZZ_C17_Saturated", with(cfgParams(c.exp, c.ref, c.bound, c.max, 0, 10), "steps", satSteps),
				func(b *Bounds) { b.Unwind = 70; b.Procs = 1 }))
		}
		return js
	}
}

const queuePkg = repoModule + "/internal/deque/queue"

func init() {
	registry["C16"] = func(tier string) []*Job {
		var js []*Job
		js = append(js, mk("c16.arith", queuePkg, "ZZ_C16_Arith", nil, func(b *Bounds) { b.Unwind = 8 }))
		steps := 6
		if tier == "thorough" {
			steps = 10
		}
		ncaps := 6
		if tier == "thorough" {
			ncaps = 8
		}
		for caps := 0; caps < ncaps; caps++ {
			st := steps
			if caps == 3 || caps >= 6 {
				st = 6 // capacities 16 and 32: the fill-to-refusal tail dominates
			}
			if caps == 7 {
				st = 4
			}
			js = append(js, mk(sprintf("c16.seq.caps%d", caps), queuePkg, "ZZ_C16_Seq", map[string]int{"caps": caps, "steps": st, "canary": 0},
				func(b *Bounds) { b.Unwind = 40; b.MaxPaths = 1000000; b.MaxWallS = 1500 }))
		}
		c := mk("c16.seq.canary", queuePkg, "ZZ_C16_Seq", map[string]int{"caps": 0, "steps": 2, "canary": 1}, func(b *Bounds) { b.Unwind = 40 })
		c.Canary = "c16.seq.canary"
		js = append(js, c)
		pre := 2
		type pc struct{ caps, prefill, p1, p2, pops int }
		pcs := []pc{{0, 1, 2, 1, 2}, {0, 0, 1, 1, 1}}
		if tier == "thorough" {
			pcs = append(pcs, pc{1, 1, 2, 2, 3}, pc{2, 3, 1, 1, 1}, pc{0, 3, 1, 1, 2})
		}
		for _, x := range pcs {
			js = append(js, mk(sprintf("c16.par.caps%d.pre%d.p%d_%d.pops%d", x.caps, x.prefill, x.p1, x.p2, x.pops), queuePkg, "ZZ_C16_Par",
				map[string]int{"caps": x.caps, "prefill": x.prefill, "p1": x.p1, "p2": x.p2, "pops": x.pops, "canary": 0},
				func(b *Bounds) { b.Unwind = 40; b.Preempt = pre; b.Race = true; b.MaxPaths = 3000000; b.MaxWallS = 1800 }))
		}
		// the consumer follows a jump marker while the queue is completely full and a producer is offering
		fjc := []int{0}
		if tier == "thorough" {
			fjc = []int{0, 1, 4}
		}
		for _, cp := range fjc {
			js = append(js, mk(sprintf("c16.full_at_jump.caps%d.pre%d", cp, pre), queuePkg, "ZZ_C16_FullAtJump", map[string]int{"caps": cp, "maxpop": 7},
				func(b *Bounds) { b.Unwind = 80; b.Preempt = pre; b.Race = true; b.MaxPaths = 3000000; b.MaxWallS = 1800 }))
		}
		c = mk("c16.par.canary", queuePkg, "ZZ_C16_Par", map[string]int{"caps": 0, "prefill": 0, "p1": 1, "p2": 1, "pops": 1, "canary": 1},
			func(b *Bounds) { b.Unwind = 40; b.Preempt = 1; b.Race = true })
		c.Canary = "c16.par.canary"
		js = append(js, c)
		for _, j := range js {
			j.Prefer = "bits"
		}
		return js
	}
}

func init() {
	registry["C14"] = func(tier string) []*Job {
		var js []*Job
		pre := 2
		type pc struct{ writers, cleaner, pending, preempt, full int }
		pcs := []pc{{1, 0, 0, 2, 0}, {1, 1, 0, 2, 0}, {2, 0, 0, 2, 0}, {1, 0, 1, 2, 0}, {1, 0, 1, 2, 1}, {1, 0, 0, 2, 1}}
		if tier == "thorough" {
			pcs = []pc{{1, 0, 0, 3, 0}, {1, 1, 0, 3, 0}, {2, 0, 0, 3, 0}, {1, 0, 1, 3, 0}, {2, 1, 0, 2, 0}, {2, 0, 1, 2, 0}, {3, 0, 0, 2, 0},
				{1, 0, 1, 3, 1}, {1, 0, 0, 3, 1}, {2, 0, 1, 1, 1}, {1, 1, 0, 2, 1}}
			// (two writers on the full buffer at pre-emption bound 2 ran past 30 minutes: registered at bound 1)
		}
		_ = pre
		for _, x := range pcs {
			name := sprintf("c14.protocol.w%d.cleaner%d.pending%d.pre%d", x.writers, x.cleaner, x.pending, x.preempt)
			if x.full == 1 {
				name = sprintf("c14.protocol.fullbuffer.w%d.cleaner%d.pending%d.pre%d", x.writers, x.cleaner, x.pending, x.preempt)
			}
			js = append(js, mk(name, rootPkg, "ZZ_C14_Protocol",
				map[string]int{"writers": x.writers, "cleaner": x.cleaner, "pending": x.pending, "canary": 0, "full": x.full},
				func(b *Bounds) { b.Unwind = 140; b.Preempt = x.preempt; b.Race = true; b.MaxPaths = 5000000; b.MaxWallS = 2400; b.MaxYields = 110 }))
		}
		c := mk("c14.protocol.canary", rootPkg, "ZZ_C14_Protocol", map[string]int{"writers": 1, "cleaner": 0, "pending": 0, "canary": 1, "full": 0},
			func(b *Bounds) { b.Unwind = 140; b.Preempt = 1; b.Race = true })
		c.Canary = "c14.canary"
		js = append(js, c)
		cp := 1
		if tier == "thorough" {
			cp = 2
		}
		js = append(js, mk(sprintf("c14.cache.max1.pre%d", cp), rootPkg, "ZZ_C14_Cache", nil,
			func(b *Bounds) { b.Unwind = 140; b.Preempt = cp; b.Race = true; b.MaxPaths = 5000000; b.MaxWallS = 2400 }))
		return js
	}
}

func init() {
	registry["C08"] = func(tier string) []*Job {
		var js []*Job
		pre := 2
		callers := []int{2}
		if tier == "thorough" {
			callers = []int{2, 3}
		}
		for _, n := range callers {
			p := pre
			if n == 3 {
				p = 2
			} else if tier == "thorough" {
				p = 3
			}
			js = append(js, mk(sprintf("c08.singleflight.callers%d.pre%d", n, p), rootPkg, "ZZ_C08_SingleFlight", map[string]int{"callers": n, "canary": 0},
				func(b *Bounds) { b.Unwind = 60; b.Preempt = p; b.Race = true; b.MaxPaths = 6000000; b.MaxWallS = 2400 }))
		}
		mp := 1
		if tier == "thorough" {
			mp = 2
		}
		js = append(js, mk(sprintf("c08.mixed.get_vs_bulkget.pre%d", mp), rootPkg, "ZZ_C08_Mixed", nil,
			func(b *Bounds) { b.Unwind = 60; b.Preempt = mp; b.Race = true; b.MapOrders = 2; b.MaxPaths = 8000000; b.MaxWallS = 3000 }))
		rp := 2
		if tier == "thorough" {
			rp = 3
		}
		js = append(js, mk(sprintf("c08.retry_after_failure.pre%d", rp), rootPkg, "ZZ_C08_Retry", nil,
			func(b *Bounds) { b.Unwind = 60; b.Preempt = rp; b.Race = true; b.MaxPaths = 8000000; b.MaxWallS = 3000 }))
		js = append(js, refreshJoinJob("c08", tier))
		np := 1
		if tier == "thorough" {
			np = 2
		}
		nj := mk(sprintf("c08.non_writing_op_during_load.pre%d", np), rootPkg, "ZZ_C08_NonWritingOpDuringLoad", nil,
			func(b *Bounds) { b.Unwind = 60; b.Preempt = np; b.Race = true; b.MaxPaths = 8000000; b.MaxWallS = 3000 })
		nj.Labels = []string{"c08n.loader_invocations_do_not_overlap"}
		js = append(js, nj)
		c := mk("c08.canary", rootPkg, "ZZ_C08_SingleFlight", map[string]int{"callers": 2, "canary": 1}, func(b *Bounds) { b.Unwind = 60; b.Preempt = 0; b.Race = true })
		c.Canary = "c08.canary"
		return append(js, c)
	}
	registry["C09"] = func(tier string) []*Job {
		var js []*Job
		pre := 2
		if tier == "thorough" {
			pre = 3
		}
		for _, mode := range []int{0, 1, 2} {
			js = append(js, mk(sprintf("c09.mode%d.pre%d", mode, pre), rootPkg, "ZZ_C09_LoadVsWrite", map[string]int{"mode": mode, "canary": 0},
				func(b *Bounds) { b.Unwind = 60; b.Preempt = pre; b.Race = true; b.MaxPaths = 6000000; b.MaxWallS = 2400 }))
		}
		xp := 2 // both tiers: bound 3 is about thirty times the 100 000 schedules of bound 2
		js = append(js, mk(sprintf("c09.reload_vs_expired_invalidation.pre%d", xp), rootPkg, "ZZ_C09_ReloadVsExpiredInvalidation", nil,
			func(b *Bounds) { b.Unwind = 140; b.Preempt = xp; b.Race = true; b.MaxPaths = 6000000; b.MaxWallS = 2400 }))
		js = append(js, failedLoadVsWriteJob("c09", tier))
		c := mk("c09.canary", rootPkg, "ZZ_C09_LoadVsWrite", map[string]int{"mode": 0, "canary": 1}, func(b *Bounds) { b.Unwind = 60; b.Preempt = 1; b.Race = true })
		c.Canary = "c09.canary"
		return append(js, c)
	}
}

func init() {
	registry["C02"] = func(tier string) []*Job {
		var js []*Job
		type pc struct{ threads, per, samekey, preempt, cfg int }
		pcs := []pc{{2, 1, 1, 2, 0}, {2, 1, 0, 1, 0}, {2, 1, 1, 1, 1}, {2, 1, 0, 1, 2}}
		if tier == "thorough" {
			pcs = []pc{{2, 1, 1, 3, 0}, {2, 1, 0, 2, 0}, {2, 2, 1, 1, 0}, {3, 1, 1, 1, 0}, {2, 1, 1, 2, 1}, {2, 1, 0, 2, 2}}
		}
		cfgNames := []string{"plain", "expired_unswept", "max1_inline_maintenance"}
		for _, x := range pcs {
			js = append(js, mk(sprintf("c02.%s.t%d.ops%d.samekey%d.pre%d", cfgNames[x.cfg], x.threads, x.per, x.samekey, x.preempt), rootPkg, "ZZ_C02_Linearizable",
				map[string]int{"threads": x.threads, "ops_per_thread": x.per, "samekey": x.samekey, "canary": 0, "cfg": x.cfg},
				func(b *Bounds) { b.Unwind = 60; b.Preempt = x.preempt; b.Race = true; b.MaxPaths = 8000000; b.MaxWallS = 3000 }))
		}
		c := mk("c02.canary", rootPkg, "ZZ_C02_Linearizable", map[string]int{"threads": 2, "ops_per_thread": 1, "samekey": 1, "canary": 1, "cfg": 0},
			func(b *Bounds) { b.Unwind = 60; b.Preempt = 0; b.Race = true })
		c.Canary = "c02.canary"
		return append(js, c)
	}
}

const hashmapPkg = repoModule + "/internal/hashmap"

func init() {
	registry["C15"] = func(tier string) []*Job {
		var js []*Job
		j := mk("c15.lemmas", hashmapPkg, "ZZ_C15_Lemmas", map[string]int{"canary": 0}, func(b *Bounds) { b.Unwind = 12 })
		j.Prefer = "bits"
		js = append(js, j)
		j = mk("c15.lemmas.canary", hashmapPkg, "ZZ_C15_Lemmas", map[string]int{"canary": 1}, func(b *Bounds) { b.Unwind = 12 })
		j.Prefer = "bits"
		j.Canary = "c15.lemma.canary"
		js = append(js, j)
		chains := []int{3, 6}
		if tier == "thorough" {
			chains = []int{2, 5, 6, 7}
		}
		for _, n := range chains {
			for _, st := range []int{0, 1} {
				if st == 0 && n > 3 && tier == "quick" {
					continue
				}
				j := mk(sprintf("c15.chain.keys%d.sametag%d", n, st), hashmapPkg, "ZZ_C15_Chain", map[string]int{"keys": n, "sametag": st, "canary": 0},
					func(b *Bounds) { b.Unwind = 40; b.MaxPaths = 2000000; b.MaxWallS = 2400 })
				j.Prefer = "bits"
				js = append(js, j)
			}
		}
		for _, size := range []int{0, 161, 1000} {
			js = append(js, mk(sprintf("c15.resize.size%d", size), hashmapPkg, "ZZ_C15_Resize", map[string]int{"size": size}, func(b *Bounds) { b.Unwind = 140 }))
		}
		sparse := [][2]int{{11, 0}, {13, 1}}
		if tier == "thorough" {
			sparse = [][2]int{{11, 0}, {13, 0}, {15, 0}, {11, 1}, {13, 1}}
		}
		for _, x := range sparse {
			js = append(js, mk(sprintf("c15.sparse_resize.keys%d.parallel%d", x[0], x[1]), hashmapPkg, "ZZ_C15_SparseResize",
				map[string]int{"keys": x[0], "parallel": x[1]}, func(b *Bounds) { b.Unwind = 300; b.Procs = 4; b.MaxPaths = 400000; b.MaxWallS = 1500 }))
		}
		pre := 2
		if tier == "thorough" {
			pre = 3
		}
		for sc := 0; sc <= 3; sc++ {
			p := pre
			if sc == 2 {
				p = pre - 1
			}
			js = append(js, mk(sprintf("c15.par.scenario%d.pre%d", sc, p), hashmapPkg, "ZZ_C15_Par", map[string]int{"scenario": sc, "prefill": 5, "canary": 0},
				func(b *Bounds) { b.Unwind = 140; b.Preempt = p; b.Race = true; b.MaxPaths = 8000000; b.MaxWallS = 3000 }))
		}
		js = append(js, mk("c15.par.parallel_resize_vs_insert.pre1", hashmapPkg, "ZZ_C15_Par", map[string]int{"scenario": 4, "prefill": 0, "canary": 0},
			func(b *Bounds) { b.Unwind = 300; b.Preempt = 1; b.Race = true; b.Procs = 4; b.MaxPaths = 8000000; b.MaxWallS = 3000 }))
		sp := 2 // (bound 3 not validated within the session: both tiers run bound 2)
		sj := mk(sprintf("c15.par.shrink_vs_insert.pre%d", sp), hashmapPkg, "ZZ_C15_Par", map[string]int{"scenario": 5, "prefill": 0, "canary": 0},
			func(b *Bounds) { b.Unwind = 140; b.Preempt = sp; b.Race = true; b.MaxPaths = 4000000; b.MaxWallS = 2400 })
		sj.Labels = []string{"c15.shrink.table_shrank", "c15.shrink.concurrent_insert_survives_the_shrink"}
		js = append(js, sj)
		c := mk("c15.par.canary", hashmapPkg, "ZZ_C15_Par", map[string]int{"scenario": 1, "prefill": 5, "canary": 1}, func(b *Bounds) { b.Unwind = 140; b.Preempt = 0; b.Race = true })
		c.Canary = "c15.par.canary"
		return append(js, c)
	}
}

func init() {
	gen := func(prop string, fn string, pn int) jobGen {
		return func(tier string) []*Job {
			cfgs := []seqCfg{{"bs_max1", 0, 0, 1, 1}, {"bs_max2", 0, 0, 1, 2}, {"bw_w3", 0, 0, 2, 3}}
			if tier == "thorough" {
				cfgs = append(cfgs, seqCfg{"bs_max3", 0, 0, 1, 3}, seqCfg{"bw_w100", 0, 0, 2, 100}, seqCfg{"bse_writing_max2", 2, 0, 1, 2}, seqCfg{"bw_w10", 0, 0, 2, 10})
			}
			var js []*Job
			for _, c := range cfgs {
				p := with(cfgParams(c.exp, c.ref, c.bound, c.max, 0, 0), "steps", 1)
				js = append(js, mk(sprintf("%s.sync.%s", prop, c.name), rootPkg, fn, p, func(b *Bounds) { b.Unwind = 70; b.MaxPaths = 800000; b.MaxWallS = 1800 }))
			}
			if tier == "thorough" {
				for _, c := range []seqCfg{{"bs_max1.s2", 0, 0, 1, 1}, {"bs_max2.s2", 0, 0, 1, 2}, {"bw_w3.s2", 0, 0, 2, 3}} {
					p := with(cfgParams(c.exp, c.ref, c.bound, c.max, 0, 0), "steps", 2)
					js = append(js, mk(sprintf("%s.sync.%s", prop, c.name), rootPkg, fn, p, func(b *Bounds) { b.Unwind = 70; b.MaxPaths = 2000000; b.MaxWallS = 2400 }))
				}
			}
			// schedules: pre-emption bound 1 in both tiers (bound 2 with three to five threads did not finish within
			// an hour); the thorough tier varies maximum and pre-state instead
			pre := 1
			maxes := []int{2}
			pres := []int{1}
			if tier == "thorough" {
				maxes = []int{1, 2}
				pres = []int{0, 1}
			}
			for _, w := range []int{0, 1} {
				for _, mx := range maxes {
					for _, ps := range pres {
						js = append(js, mk(sprintf("%s.par.weighted%d.max%d.prestate%d.pre%d", prop, w, mx, ps, pre), rootPkg, "ZZ_C0405_Par",
							map[string]int{"prop": pn, "weighted": w, "max": mx, "pre": ps},
							func(b *Bounds) { b.Unwind = 140; b.Preempt = pre; b.Race = true; b.MaxPaths = 8000000; b.MaxWallS = 3000 }))
					}
				}
			}
			js = append(js, policyJobs(prop, tier)...)
			c := mk(prop+".canary", rootPkg, fn, with(cfgParams(0, 0, 1, 2, 0, 0), "steps", 1, "canary", 1), func(b *Bounds) { b.Unwind = 70 })
			c.Canary = prop + ".canary"
			return append(js, c)
		}
	}
	c04 := gen("c04", "ZZ_C04_Sync", 4)
	registry["C04"] = func(tier string) []*Job {
		js := c04(tier)
		mid := 3
		if tier == "thorough" {
			mid = -1
		}
		// several writes of one key recorded before maintenance runs (asynchronous executor), then the drain: the bound
		// and the running total the eviction loop is guarded by
		for _, c := range []seqCfg{{"bs_max10_pending", 0, 0, 1, 10}, {"bw_w100_pending", 0, 0, 2, 100}} {
			if tier == "quick" && c.bound == 2 {
				continue
			}
			p := with(cfgParams(c.exp, c.ref, c.bound, c.max, 1, 0), "symtime", 1, "steps", 3, "nkeys", 2, "prefixset", 2, "opset", 0, "firstop", 0, "lastkeys", 1, "midset", mid)
			js = append(js, mk("c04.pending."+c.name, rootPkg, "ZZ_C04_Pending", p, func(b *Bounds) { b.Unwind = 12; b.MaxPaths = 800000; b.MaxWallS = 1800 }))
		}
		return js
	}
	c05 := gen("c05", "ZZ_C05_Sync", 5)
	registry["C05"] = func(tier string) []*Job {
		js := c05(tier)
		mid := 3
		if tier == "thorough" {
			mid = -1
		}
		for _, c := range []seqCfg{{"bs_max10_pending", 0, 0, 1, 10}, {"bw_w100_pending", 0, 0, 2, 100}} {
			p := with(cfgParams(c.exp, c.ref, c.bound, c.max, 1, 0), "symtime", 1, "steps", 3, "nkeys", 2, "prefixset", 2, "opset", 0, "firstop", 0, "lastkeys", 1, "midset", mid)
			js = append(js, mk("c05.pending."+c.name, rootPkg, "ZZ_C05_Pending", p, func(b *Bounds) { b.Unwind = 12; b.MaxPaths = 800000; b.MaxWallS = 1800 }))
		}
		// expiring caches with writes pending (concrete clock offsets around the deadlines: the final CleanUp sweeps the
		// wheel): timer-wheel membership is audited at quiescence
		ecfgs := []seqCfg{{"be_writing", 2, 0, 0, 0}}
		wsteps := 3
		if tier == "thorough" {
			ecfgs = append(ecfgs, seqCfg{"bse_accessing_max10", 3, 0, 1, 10}, seqCfg{"be_custom", 4, 0, 0, 0}, seqCfg{"bew_writing_w100", 2, 0, 2, 100})
			wsteps = 4
		}
		for _, c := range ecfgs {
			p := with(cfgParams(c.exp, c.ref, c.bound, c.max, 1, 0), "steps", wsteps)
			js = append(js, mk("c05.wheel_pending."+c.name, rootPkg, "ZZ_C05_WheelPending", p, func(b *Bounds) { b.Unwind = 70; b.MaxPaths = 800000; b.MaxWallS = 1800 }))
		}
		// a lifetime-extending read racing with the sweep that finds the entry's timer due
		rsp := 2
		if tier == "thorough" {
			rsp = 3
		}
		rj := mk(sprintf("c05.read_vs_sweep.pre%d", rsp), rootPkg, "ZZ_C05_ReadVsSweep", nil,
			func(b *Bounds) { b.Unwind = 70; b.Preempt = rsp; b.Race = true; b.MaxPaths = 8000000; b.MaxWallS = 3000 })
		rj.Labels = []string{"c05r.untouched_live_entry_survives"}
		js = append(js, rj)
		return js
	}
}

// policyJobs: the inductive policy-level step shared by C04, C05 and C07.
func policyJobs(prop, tier string) []*Job {
	var js []*Job
	type pc struct{ nodes, max, sym int }
	// quick: two nodes (45 s); thorough: two and three nodes, symbolic sketch; in all three checks (a seeded change that
	// evicted zero-weight entries was invisible to C04/C07's quick tier while the step ran under C05 only)
	var pcs []pc
	if tier == "thorough" {
		pcs = []pc{{2, 10, 0}, {3, 10, 0}, {2, 3, 1}}
	} else {
		pcs = []pc{{2, 10, 0}}
	}
	for _, x := range pcs {
		j := mk(sprintf("%s.policy_step.n%d.max%d.symsketch%d", prop, x.nodes, x.max, x.sym), rootPkg, "ZZ_Policy_Step",
			map[string]int{"nodes": x.nodes, "max": x.max, "symsketch": x.sym, "canary": 0},
			func(b *Bounds) { b.Unwind = 40; b.MaxPaths = 3000000; b.MaxWallS = 2400 })
		j.Prefer = "bits"
		js = append(js, j)
	}
	return js
}

func sprintf(f string, a ...interface{}) string { return fmt.Sprintf(f, a...) }
