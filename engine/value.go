package main

import (
	"fmt"
	"go/types"
	"strings"

	"golang.org/x/tools/go/ssa"
)

// Value is one of:
//   *Term      integers (bit-vectors of the Go width) and booleans
//   float64    floats (concrete only)
//   complex128 (unused)
//   string     strings (concrete only)
//   *Ptr       pointers (guarded set of cells), unsafe.Pointer
//   *StructV   struct values
//   *ArrayV    array values
//   *SliceV    slices
//   *IfaceV    interfaces (nil interface: (*IfaceV)(nil) is never used; use &IfaceV{} with t==nil)
//   *FuncV     closures / functions (nil func: fn==nil && bi==nil)
//   *MapV      maps
//   *ChanV     channels
//   TupleV     multiple results
type Value interface{}

type Target struct {
	g *Term // guard (Bool); targets of one Ptr are mutually exclusive and exhaustive under the path condition
	c *Cell // nil = the nil pointer
}

type Ptr struct {
	ts []Target
}

type StructV struct{ f []Value }
type ArrayV struct{ e []Value }

type SliceV struct {
	arr *Cell // array cell (kids = elements); nil for nil slice
	off int
	len int
	cap int
}

type IfaceV struct {
	t types.Type // dynamic type; nil for nil interface
	v Value
}

type FuncV struct {
	fn  *ssa.Function
	bi  *ssa.Builtin
	env []Value
	// bound method closure implemented natively (engine-side), used for intrinsics returning funcs
	native func(in *Interp, args []Value) Value
	name   string
}

func (f *FuncV) isNil() bool { return f == nil || (f.fn == nil && f.bi == nil && f.native == nil) }

type mapEntry struct {
	k, v Value
}

type MapObj struct {
	id      int
	entries []mapEntry
	kt, vt  types.Type
}

type MapV struct{ m *MapObj }

type ChanObj struct {
	id     int
	buf    []Value
	cap    int
	closed bool
	et     types.Type
	vc     vclock // release clock for HB
}

type ChanV struct{ c *ChanObj }

type TupleV []Value

// Cell is a memory location. Aggregates (struct, array) have kids; everything else is a leaf.
type Cell struct {
	v      Value
	kids   []*Cell
	typ    types.Type
	obj    *Obj
	parent *Cell
	idx    int
	// race monitor
	wEpoch  epoch
	rEpochs []epoch
	atomicVC vclock // release clock when used as an atomic
	atomicUsed bool
	plainUsed  bool
	ver        int // bumped on every atomic write (spin detection)
}

type Obj struct {
	id      int
	site    string
	thread  int
	escaped bool
}

func (c *Cell) String() string {
	if c == nil {
		return "nil"
	}
	var parts []string
	for x := c; x != nil; x = x.parent {
		if x.parent == nil {
			parts = append([]string{fmt.Sprintf("o%d<%s>", x.obj.id, x.obj.site)}, parts...)
		} else {
			parts = append([]string{fmt.Sprintf(".%d", x.idx)}, parts...)
		}
	}
	return strings.Join(parts, "")
}

func (in *Interp) nilPtr() *Ptr { return &Ptr{ts: []Target{{in.tb.True(), nil}}} }

func (in *Interp) ptrTo(c *Cell) *Ptr { return &Ptr{ts: []Target{{in.tb.True(), c}}} }

func (p *Ptr) single() (*Cell, bool) {
	if len(p.ts) == 1 {
		return p.ts[0].c, true
	}
	return nil, false
}

// widthOf returns the bit width of a basic integer/bool type (0 for bool).
func widthOf(t types.Type) int {
	b, ok := t.Underlying().(*types.Basic)
	if !ok {
		panic(fmt.Sprintf("widthOf: not basic: %s", t))
	}
	switch b.Kind() {
	case types.Bool, types.UntypedBool:
		return 0
	case types.Int8, types.Uint8:
		return 8
	case types.Int16, types.Uint16:
		return 16
	case types.Int32, types.Uint32, types.UntypedRune:
		return 32
	case types.Int, types.Uint, types.Int64, types.Uint64, types.Uintptr, types.UntypedInt:
		return 64
	}
	panic(fmt.Sprintf("widthOf: unsupported basic %s", t))
}

func isSigned(t types.Type) bool {
	b, ok := t.Underlying().(*types.Basic)
	if !ok {
		return false
	}
	return b.Info()&types.IsInteger != 0 && b.Info()&types.IsUnsigned == 0
}

func isIntegerT(t types.Type) bool {
	b, ok := t.Underlying().(*types.Basic)
	return ok && b.Info()&types.IsInteger != 0
}

func isFloatT(t types.Type) bool {
	b, ok := t.Underlying().(*types.Basic)
	return ok && b.Info()&types.IsFloat != 0
}

func isStringT(t types.Type) bool {
	b, ok := t.Underlying().(*types.Basic)
	return ok && b.Info()&types.IsString != 0
}

func isBoolT(t types.Type) bool {
	b, ok := t.Underlying().(*types.Basic)
	return ok && b.Info()&types.IsBoolean != 0
}

// zero returns the zero value of a type.
func (in *Interp) zero(t types.Type) Value {
	switch u := t.Underlying().(type) {
	case *types.Basic:
		switch {
		case u.Kind() == types.UnsafePointer:
			return in.nilPtr()
		case u.Info()&types.IsBoolean != 0:
			return in.tb.False()
		case u.Info()&types.IsInteger != 0:
			return in.tb.Const(widthOf(u), 0)
		case u.Info()&types.IsFloat != 0:
			return float64(0)
		case u.Info()&types.IsString != 0:
			return ""
		case u.Kind() == types.UntypedNil:
			return in.nilPtr()
		}
		panic(fmt.Sprintf("zero: basic %s", u))
	case *types.Pointer:
		return in.nilPtr()
	case *types.Struct:
		s := &StructV{f: make([]Value, u.NumFields())}
		for i := range s.f {
			s.f[i] = in.zero(u.Field(i).Type())
		}
		return s
	case *types.Array:
		a := &ArrayV{e: make([]Value, u.Len())}
		var z Value
		for i := range a.e {
			if i == 0 {
				z = in.zero(u.Elem())
			}
			a.e[i] = z // values are immutable, sharing is fine
		}
		return a
	case *types.Slice:
		return &SliceV{}
	case *types.Interface:
		return &IfaceV{}
	case *types.Signature:
		return &FuncV{}
	case *types.Map:
		return &MapV{}
	case *types.Chan:
		return &ChanV{}
	case *types.Tuple:
		tv := make(TupleV, u.Len())
		for i := range tv {
			tv[i] = in.zero(u.At(i).Type())
		}
		return tv
	case *types.TypeParam:
		panic("zero: uninstantiated type parameter " + t.String())
	}
	panic(fmt.Sprintf("zero: unsupported type %s (%T)", t, t.Underlying()))
}

// newCell allocates a cell tree for a type, initialised to zero.
func (in *Interp) newCell(t types.Type, obj *Obj) *Cell {
	c := &Cell{typ: t, obj: obj}
	switch u := t.Underlying().(type) {
	case *types.Struct:
		c.kids = make([]*Cell, u.NumFields())
		for i := range c.kids {
			k := in.newCell(u.Field(i).Type(), obj)
			k.parent, k.idx = c, i
			c.kids[i] = k
		}
	case *types.Array:
		n := int(u.Len())
		c.kids = make([]*Cell, n)
		for i := range c.kids {
			k := in.newCell(u.Elem(), obj)
			k.parent, k.idx = c, i
			c.kids[i] = k
		}
	default:
		c.v = in.zero(t)
	}
	return c
}

func (in *Interp) newObj(site string) *Obj {
	in.nextObj++
	return &Obj{id: in.nextObj, site: site, thread: in.curThreadID()}
}

// alloc allocates a new object of type t.
func (in *Interp) alloc(t types.Type, site string) *Cell {
	return in.newCell(t, in.newObj(site))
}

// allocArray allocates an array object with n elements of type et.
func (in *Interp) allocArray(et types.Type, n int, site string) *Cell {
	obj := in.newObj(site)
	c := &Cell{typ: types.NewArray(et, int64(n)), obj: obj}
	c.kids = make([]*Cell, n)
	for i := range c.kids {
		k := in.newCell(et, obj)
		k.parent, k.idx = c, i
		c.kids[i] = k
	}
	return c
}

func isAggregate(c *Cell) bool { return c.kids != nil || isAggType(c.typ) }

func isAggType(t types.Type) bool {
	switch t.Underlying().(type) {
	case *types.Struct, *types.Array:
		return true
	}
	return false
}

// loadCell reads the value of a cell (recursively for aggregates).
func (in *Interp) loadCell(c *Cell) Value {
	if isAggType(c.typ) {
		switch c.typ.Underlying().(type) {
		case *types.Struct:
			s := &StructV{f: make([]Value, len(c.kids))}
			for i, k := range c.kids {
				s.f[i] = in.loadCell(k)
			}
			return s
		default:
			a := &ArrayV{e: make([]Value, len(c.kids))}
			for i, k := range c.kids {
				a.e[i] = in.loadCell(k)
			}
			return a
		}
	}
	in.raceRead(c)
	return c.v
}

// storeCell writes v into c under guard g (g true = unconditional).
func (in *Interp) storeCell(c *Cell, v Value, g *Term) {
	if isAggType(c.typ) {
		switch vv := v.(type) {
		case *StructV:
			if len(vv.f) != len(c.kids) {
				panic(fmt.Sprintf("storeCell: struct arity mismatch %d vs %d (%s)", len(vv.f), len(c.kids), c.typ))
			}
			for i, k := range c.kids {
				in.storeCell(k, vv.f[i], g)
			}
		case *ArrayV:
			if len(vv.e) != len(c.kids) {
				panic("storeCell: array arity mismatch")
			}
			for i, k := range c.kids {
				in.storeCell(k, vv.e[i], g)
			}
		default:
			panic(fmt.Sprintf("storeCell: aggregate cell %s gets %T", c.typ, v))
		}
		return
	}
	in.raceWrite(c)
	if g.IsTrue() {
		c.v = v
		return
	}
	c.v = in.mergeValues(g, v, c.v)
}

// mergeValues builds ite(g, a, b) for values. Panics with errUnmergeable if not representable.
type errUnmergeable struct{ why string }

func (in *Interp) mergeValues(g *Term, a, b Value) Value {
	if g.IsTrue() {
		return a
	}
	if g.IsFalse() {
		return b
	}
	switch x := a.(type) {
	case *Term:
		y := b.(*Term)
		return in.tb.Ite(g, x, y)
	case *Ptr:
		y := b.(*Ptr)
		return in.mergePtr(g, x, y)
	case *StructV:
		y := b.(*StructV)
		r := &StructV{f: make([]Value, len(x.f))}
		for i := range x.f {
			r.f[i] = in.mergeValues(g, x.f[i], y.f[i])
		}
		return r
	case *ArrayV:
		y := b.(*ArrayV)
		r := &ArrayV{e: make([]Value, len(x.e))}
		for i := range x.e {
			r.e[i] = in.mergeValues(g, x.e[i], y.e[i])
		}
		return r
	case float64:
		if x == b.(float64) {
			return x
		}
	case string:
		if x == b.(string) {
			return x
		}
	case *SliceV:
		y := b.(*SliceV)
		if *x == *y {
			return x
		}
	case *IfaceV:
		y := b.(*IfaceV)
		if x.t == nil && y.t == nil {
			return x
		}
		if x.t != nil && y.t != nil && types.Identical(x.t, y.t) {
			return &IfaceV{t: x.t, v: in.mergeValues(g, x.v, y.v)}
		}
	case *FuncV:
		y := b.(*FuncV)
		if x == y || (x.isNil() && y.isNil()) {
			return x
		}
	case *MapV:
		if x.m == b.(*MapV).m {
			return x
		}
	case *ChanV:
		if x.c == b.(*ChanV).c {
			return x
		}
	}
	panic(errUnmergeable{fmt.Sprintf("%T", a)})
}

func (in *Interp) mergePtr(g *Term, x, y *Ptr) *Ptr {
	// result targets: g&gx for x's, !g&gy for y's; combine identical cells
	r := &Ptr{}
	add := func(gg *Term, c *Cell) {
		if gg.IsFalse() {
			return
		}
		for i := range r.ts {
			if r.ts[i].c == c {
				r.ts[i].g = in.tb.Or(r.ts[i].g, gg)
				return
			}
		}
		r.ts = append(r.ts, Target{gg, c})
	}
	ng := in.tb.Not(g)
	for _, t := range x.ts {
		add(in.tb.And(g, t.g), t.c)
	}
	for _, t := range y.ts {
		add(in.tb.And(ng, t.g), t.c)
	}
	if len(r.ts) == 1 {
		r.ts[0].g = in.tb.True()
	}
	return r
}

// ptrEq returns the Bool term for p == q.
func (in *Interp) ptrEq(p, q *Ptr) *Term {
	res := in.tb.False()
	for _, a := range p.ts {
		for _, b := range q.ts {
			if a.c == b.c {
				res = in.tb.Or(res, in.tb.And(a.g, b.g))
			}
		}
	}
	return res
}

func (in *Interp) ptrIsNil(p *Ptr) *Term {
	res := in.tb.False()
	for _, a := range p.ts {
		if a.c == nil {
			res = in.tb.Or(res, a.g)
		}
	}
	return res
}

func fmtValue(v Value) string {
	switch x := v.(type) {
	case nil:
		return "<nil>"
	case *Term:
		if x.IsConst() {
			if x.w == 0 {
				return fmt.Sprint(x.c == 1)
			}
			return fmt.Sprintf("%d", x.c)
		}
		return "sym:" + x.ref()
	case *Ptr:
		var ps []string
		for _, t := range x.ts {
			ps = append(ps, t.c.String())
		}
		return "&{" + strings.Join(ps, "|") + "}"
	case *StructV:
		var ps []string
		for _, f := range x.f {
			ps = append(ps, fmtValue(f))
		}
		return "{" + strings.Join(ps, ",") + "}"
	case *IfaceV:
		if x.t == nil {
			return "iface(nil)"
		}
		return fmt.Sprintf("iface(%s:%s)", x.t, fmtValue(x.v))
	case string:
		return fmt.Sprintf("%q", x)
	case TupleV:
		var ps []string
		for _, f := range x {
			ps = append(ps, fmtValue(f))
		}
		return "(" + strings.Join(ps, ",") + ")"
	}
	return fmt.Sprintf("%T", v)
}
