package main

// Native replay of concurrent counterexamples ("native schedule replay"): the repository's files and the harness
// files are copied with their imports of sync and sync/atomic pointing to the shims in internal/zzsync (added through
// the overlay from /verif/harness/pkg/internal/zzsync) and their go statements calling zzsched.Go; the test binary
// built from those copies (go test -overlay; nothing is written into /repo) forces the order of visible operations the
// engine recorded for the counterexample and runs the harness natively.

import (
	"bytes"
	"encoding/json"
	"fmt"
	"go/ast"
	"go/parser"
	"go/printer"
	"go/token"
	"os"
	"os/exec"
	"path/filepath"
	"strconv"
	"strings"
	"time"

	"golang.org/x/tools/go/ast/astutil"
)

const (
	shimSync   = repoModule + "/internal/zzsync"
	shimAtomic = repoModule + "/internal/zzsync/atomic"
	schedPkg   = repoModule + "/internal/zzsched"
)

// rewriteForSched returns the source with sync / sync/atomic redirected to the shims and go statements replaced;
// changed reports whether anything was rewritten.
func rewriteForSched(filename string, src []byte) ([]byte, bool, error) {
	fset := token.NewFileSet()
	f, err := parser.ParseFile(fset, filename, src, parser.ParseComments)
	if err != nil {
		return nil, false, err
	}
	changed := false
	for _, im := range f.Imports {
		p, _ := strconv.Unquote(im.Path.Value)
		switch p {
		case "sync":
			im.Path.Value = strconv.Quote(shimSync)
			changed = true
		case "sync/atomic":
			im.Path.Value = strconv.Quote(shimAtomic)
			changed = true
		}
	}
	nGo := 0
	astutil.Apply(f, func(c *astutil.Cursor) bool {
		g, ok := c.Node().(*ast.GoStmt)
		if !ok {
			return true
		}
		nGo++
		// { zzf := <fun>; zza0 := <arg0>; ...; zzsched.Go(func() { zzf(zza0, ...) }) } — operands are evaluated
		// by the go statement itself, so they are bound before the goroutine starts
		var stmts []ast.Stmt
		bind := func(name string, e ast.Expr) *ast.Ident {
			id := ast.NewIdent(name)
			stmts = append(stmts, &ast.AssignStmt{Lhs: []ast.Expr{id}, Tok: token.DEFINE, Rhs: []ast.Expr{e}})
			return id
		}
		call := g.Call
		fn := bind("zzf", call.Fun)
		var args []ast.Expr
		for i, a := range call.Args {
			args = append(args, bind(fmt.Sprintf("zza%d", i), a))
		}
		inner := &ast.CallExpr{Fun: fn, Args: args}
		if call.Ellipsis.IsValid() {
			inner.Ellipsis = 1
		}
		lit := &ast.FuncLit{Type: &ast.FuncType{Params: &ast.FieldList{}}, Body: &ast.BlockStmt{List: []ast.Stmt{&ast.ExprStmt{X: inner}}}}
		stmts = append(stmts, &ast.ExprStmt{X: &ast.CallExpr{Fun: &ast.SelectorExpr{X: ast.NewIdent("zzsched"), Sel: ast.NewIdent("Go")}, Args: []ast.Expr{lit}}})
		c.Replace(&ast.BlockStmt{List: stmts})
		return false
	}, nil)
	if nGo > 0 {
		astutil.AddImport(fset, f, schedPkg)
		changed = true
	}
	if !changed {
		return src, false, nil
	}
	var buf bytes.Buffer
	if err := printer.Fprint(&buf, fset, f); err != nil {
		return nil, false, err
	}
	return buf.Bytes(), true, nil
}

// schedOverlay extends the replay overlay with rewritten copies of every file of the repository's packages (root,
// internal/..., stats) and of every harness file.
func schedOverlay(real map[string]string, dir string) error {
	n := 0
	put := func(virtual string, src []byte) error {
		out, changed, err := rewriteForSched(virtual, src)
		if err != nil {
			return fmt.Errorf("%s: %v", virtual, err)
		}
		if !changed {
			return nil
		}
		n++
		rp := filepath.Join(dir, fmt.Sprintf("rw%03d_%s", n, filepath.Base(virtual)))
		if err := os.WriteFile(rp, out, 0o644); err != nil {
			return err
		}
		real[virtual] = rp
		return nil
	}
	// harness files already in the overlay (not the runtime, whose own locks are not part of any schedule, and not the shims)
	for virtual, rp := range real {
		base := filepath.Base(virtual)
		if base == "zz_verif_rt.go" || base == "zz_verif_replay_test.go" || !strings.HasPrefix(base, "zz_verif_") {
			continue // the runtime, the shims and the environment overlays (table-driven hasher, replayed random numbers) are not part of any schedule
		}
		if rp == "" {
			continue
		}
		src, err := os.ReadFile(rp)
		if err != nil {
			return err
		}
		if err := put(virtual, src); err != nil {
			return err
		}
	}
	for _, root := range []string{".", "internal", "stats"} {
		base := filepath.Join(repoDir, root)
		err := filepath.Walk(base, func(p string, info os.FileInfo, err error) error {
			if err != nil {
				return err
			}
			if info.IsDir() {
				if root == "." && p != base {
					return filepath.SkipDir // the root package's own files only; internal and stats are walked separately
				}
				return nil
			}
			if !strings.HasSuffix(p, ".go") || strings.HasSuffix(p, "_test.go") {
				return nil
			}
			if _, ok := real[p]; ok {
				return nil // replaced by the overlay already (hasher, xruntime): handled above
			}
			src, err := os.ReadFile(p)
			if err != nil {
				return err
			}
			return put(p, src)
		})
		if err != nil {
			return err
		}
	}
	return nil
}

// nativeSchedReplay replays a concurrent counterexample natively with the recorded schedule forced.
// It returns a description and whether the violation reproduced with the schedule followed to its end.
func nativeSchedReplay(v *Violation) (string, bool) {
	if len(v.Sched) == 0 {
		return "native-schedule: no recorded schedule", false
	}
	bin, berr := ensureTestBinMode(v.Pkg, true)
	if bin == "" {
		return "native-schedule: " + berr, false
	}
	dir := filepath.Join(scratchDir(), fmt.Sprintf("nsr%d", time.Now().UnixNano()))
	os.MkdirAll(dir, 0o755)
	defer os.RemoveAll(dir)
	rb, _ := json.Marshal(v)
	rp := filepath.Join(dir, "replay.json")
	os.WriteFile(rp, rb, 0o644)
	sb, _ := json.Marshal(v.Sched)
	sp := filepath.Join(dir, "sched.json")
	os.WriteFile(sp, sb, 0o644)
	rel := strings.TrimPrefix(strings.TrimPrefix(v.Pkg, repoModule), "/")
	cmd := exec.Command(bin, "-test.run", "^TestZZReplay$", "-test.v", "-test.timeout", "60s")
	cmd.Dir = filepath.Join(repoDir, rel)
	cmd.Env = append(goEnv(), "VERIF_REPLAY="+rp, "VERIF_SCHED="+sp)
	out, _ := cmd.CombinedOutput()
	txt := string(out)
	line, sched := "", ""
	for _, l := range strings.Split(txt, "\n") {
		if strings.HasPrefix(l, "ZZ-REPLAY-") {
			line = l
		}
		if strings.HasPrefix(l, "ZZ-SCHED-") {
			sched = l
		}
	}
	if line == "" {
		if strings.Contains(txt, "zzAssertFailure") {
			i := strings.Index(txt, "zzAssertFailure")
			line = "ZZ-REPLAY-ASSERT(goroutine) " + firstLine(txt[i:])
		} else if strings.Contains(txt, "panic:") {
			i := strings.Index(txt, "panic:")
			line = "ZZ-REPLAY-PANIC " + firstLine(txt[i:])
		} else if strings.Contains(txt, "test timed out") || strings.Contains(txt, "all goroutines are asleep") {
			line = "ZZ-REPLAY-HANG"
		} else {
			line = "ZZ-REPLAY-NOOUTPUT " + firstLine(txt)
		}
	}
	ok := false
	switch v.Kind {
	case "assert":
		ok = strings.HasPrefix(line, "ZZ-REPLAY-ASSERT") && strings.Contains(line, v.Label)
	case "panic":
		ok = strings.HasPrefix(line, "ZZ-REPLAY-PANIC")
	case "deadlock":
		ok = strings.HasPrefix(line, "ZZ-REPLAY-HANG") || strings.Contains(sched, "stalled")
	}
	return "native-schedule: " + line + " [" + sched + "]", ok
}
