package main

import (
	"fmt"
	"go/types"
	"os"
	"path/filepath"
	"regexp"
	"sort"
	"strings"

	"golang.org/x/tools/go/packages"
	"golang.org/x/tools/go/ssa"
	"golang.org/x/tools/go/ssa/ssautil"
)

const repoModule = "github.com/maypok86/otter/v2"

var (
	repoDir  = envOr("VERIF_REPO", "/repo")
	verifDir = envOr("VERIF_DIR", "/verif")
)

func envOr(k, d string) string {
	if v := os.Getenv(k); v != "" {
		return v
	}
	return d
}

func writeFile(path, content string) {
	os.MkdirAll(filepath.Dir(path), 0o755)
	os.WriteFile(path, []byte(content), 0o644)
}

var pkgClause = regexp.MustCompile(`(?m)^package\s+(\w+)`)

// harnessOverlay builds the overlay map (virtual path under /repo -> content) from /verif/harness/pkg.
// Returns also the list of (virtual path, real path) pairs for native replay overlays.
func harnessOverlay(withTest bool) (map[string][]byte, map[string]string, error) {
	ov := map[string][]byte{}
	real := map[string]string{}
	root := filepath.Join(verifDir, "harness", "pkg")
	rtTmpl, err := os.ReadFile(filepath.Join(verifDir, "harness", "rt", "zz_verif_rt.go.tmpl"))
	if err != nil {
		return nil, nil, err
	}
	testTmpl, err := os.ReadFile(filepath.Join(verifDir, "harness", "rt", "zz_verif_replay_test.go.tmpl"))
	if err != nil {
		return nil, nil, err
	}
	dirs := map[string]string{} // repo-relative dir -> package name
	err = filepath.Walk(root, func(p string, info os.FileInfo, err error) error {
		if err != nil || info.IsDir() || !strings.HasSuffix(p, ".go") {
			return err
		}
		rel, _ := filepath.Rel(root, filepath.Dir(p))
		if rel == "_root" {
			rel = "."
		} else {
			rel = strings.TrimPrefix(rel, "_root/")
		}
		b, err := os.ReadFile(p)
		if err != nil {
			return err
		}
		m := pkgClause.FindSubmatch(b)
		if m == nil {
			return fmt.Errorf("%s: no package clause", p)
		}
		if !strings.Contains(rel, "zzsched") && !strings.Contains(rel, "zzsync") {
			dirs[rel] = string(m[1]) // harness runtime and replay test are generated for harness packages, not for the shims
		}
		v := filepath.Join(repoDir, rel, filepath.Base(p))
		ov[v] = b
		real[v] = p
		return nil
	})
	if err != nil {
		return nil, nil, err
	}
	gen := filepath.Join(scratchDir(), "gen")
	for rel, name := range dirs {
		rt := strings.Replace(string(rtTmpl), "package PKGNAME", "package "+name, 1)
		v := filepath.Join(repoDir, rel, "zz_verif_rt.go")
		ov[v] = []byte(rt)
		rp := filepath.Join(gen, strings.ReplaceAll(rel, "/", "_"), "zz_verif_rt.go")
		writeFile(rp, rt)
		real[v] = rp
		if withTest {
			tt := strings.Replace(string(testTmpl), "package PKGNAME", "package "+name, 1)
			v := filepath.Join(repoDir, rel, "zz_verif_replay_test.go")
			rp := filepath.Join(gen, strings.ReplaceAll(rel, "/", "_"), "zz_verif_replay_test.go")
			writeFile(rp, tt)
			real[v] = rp
		}
	}
	return ov, real, nil
}

var scratch string

func scratchDir() string {
	if scratch == "" {
		base := os.Getenv("TMPDIR")
		if base == "" {
			base = "/tmp"
		}
		scratch = filepath.Join(base, fmt.Sprintf("verif-%d", os.Getpid()))
		os.MkdirAll(scratch, 0o755)
	}
	return scratch
}

func cleanupScratch() {
	if scratch != "" {
		os.RemoveAll(scratch)
	}
}

func goEnv() []string {
	env := os.Environ()
	goroot := "/opt/veriftools/go1.26.8"
	out := []string{}
	for _, e := range env {
		if strings.HasPrefix(e, "PATH=") || strings.HasPrefix(e, "GOFLAGS=") || strings.HasPrefix(e, "GOTOOLCHAIN=") ||
			strings.HasPrefix(e, "GOPROXY=") || strings.HasPrefix(e, "GOSUMDB=") {
			continue
		}
		out = append(out, e)
	}
	out = append(out, "PATH="+goroot+"/bin:"+os.Getenv("PATH"), "GOFLAGS=-mod=mod", "GOTOOLCHAIN=local", "GOPROXY=off", "GOSUMDB=off")
	return out
}

func loadProgram() (*Program, error) {
	ov, _, err := harnessOverlay(false)
	if err != nil {
		return nil, err
	}
	cfg := &packages.Config{
		Mode:    packages.LoadAllSyntax,
		Dir:     repoDir,
		Overlay: ov,
		Env:     goEnv(),
		Tests:   false,
	}
	pkgs, err := packages.Load(cfg, ".", "./internal/...", "./stats")
	if err != nil {
		return nil, err
	}
	var errs []string
	packages.Visit(pkgs, nil, func(p *packages.Package) {
		for _, e := range p.Errors {
			errs = append(errs, e.Error())
		}
	})
	if len(errs) > 0 {
		sort.Strings(errs)
		if len(errs) > 20 {
			errs = errs[:20]
		}
		return nil, fmt.Errorf("harness or repository does not compile:\n%s", strings.Join(errs, "\n"))
	}
	prog, spkgs := ssautil.AllPackages(pkgs, ssa.InstantiateGenerics)
	prog.Build()
	P := &Program{ssa: prog, fset: prog.Fset, pkgs: map[string]*ssa.Package{}, repoMod: repoModule, fnNames: map[*ssa.Function]string{}}
	for _, sp := range spkgs {
		if sp != nil {
			P.pkgs[sp.Pkg.Path()] = sp
		}
	}
	for _, sp := range prog.AllPackages() {
		if _, ok := P.pkgs[sp.Pkg.Path()]; !ok {
			P.pkgs[sp.Pkg.Path()] = sp
		}
	}
	if rt := prog.ImportedPackage("runtime"); rt != nil {
		if ty := rt.Type("errorString"); ty != nil {
			P.rtErrStr = ty.Type()
		}
	}
	if P.rtErrStr == nil {
		P.rtErrStr = types.Typ[types.String]
	}
	P.errorT = types.Universe.Lookup("error").Type()
	// repo packages in dependency order for init
	seen := map[*types.Package]bool{}
	var order []*ssa.Package
	var visit func(tp *types.Package)
	visit = func(tp *types.Package) {
		if seen[tp] {
			return
		}
		seen[tp] = true
		for _, imp := range tp.Imports() {
			visit(imp)
		}
		if strings.HasPrefix(tp.Path(), repoModule) || stdInitWhitelist[tp.Path()] {
			if sp := prog.Package(tp); sp != nil {
				order = append(order, sp)
			}
		}
	}
	var roots []*ssa.Package
	for _, sp := range spkgs {
		if sp != nil {
			roots = append(roots, sp)
		}
	}
	sort.Slice(roots, func(i, j int) bool { return roots[i].Pkg.Path() < roots[j].Pkg.Path() })
	for _, sp := range roots {
		visit(sp.Pkg)
	}
	P.initPkgs = order
	return P, nil
}
