package main

import (
	"encoding/json"
	"fmt"
	"os"
	"path/filepath"
	"sort"
	"time"
)

func writeEvidence(id, tier string, seed int, results []*JobResult, confirmed []*Violation, undecided []string, wall time.Duration, replays int, extra map[string]interface{}) {
	paths, forks, obl, dis, unk, sq := 0, 0, 0, 0, 0, 0
	var steps int64
	var st time.Duration
	funcs := map[string]string{}
	stubs := map[string]int{}
	pruned := map[string]int{}
	reached := map[string]int{}
	var samples []interface{}
	var jobs []interface{}
	for _, r := range results {
		paths += r.Paths
		forks += r.Forks
		obl += r.Obligations
		dis += r.Discharged
		unk += r.Unknown + r.UnknownAssert
		sq += r.SolverQueries
		st += r.SolverTime
		steps += r.Steps
		for k, v := range r.Funcs {
			funcs[k] = v
		}
		for k, v := range r.Stubs {
			stubs[k] += v
		}
		for k, v := range r.AssumePruned {
			pruned[k] += v
		}
		for k, v := range r.Reached {
			reached[r.Job.Name+":"+k] += v
		}
		if len(r.Samples) > 0 && len(samples) < 12 {
			samples = append(samples, r.Samples[0])
		}
		if len(r.Violations) > 0 && len(samples) < 16 {
			v := r.Violations[0]
			samples = append(samples, map[string]interface{}{"job": r.Job.Name, "counterexample_label": v.Label, "nondets": v.Nondets, "canary": r.Job.Canary != ""})
		}
		jobs = append(jobs, map[string]interface{}{
			"name": r.Job.Name, "harness": r.Job.Pkg + "." + r.Job.Func, "params": r.Job.Params, "bounds": r.Job.B, "desc": r.Job.Desc,
			"paths": r.Paths, "forks": r.Forks, "obligations": r.Obligations, "discharged": r.Discharged,
			"violating_paths": len(r.Violations), "canary": r.Job.Canary, "path_endings": r.Aborts,
			"solver_queries": r.SolverQueries, "solver_queries_by_backend": r.ByProc, "solver_s": r.SolverTime.Seconds(), "wall_s": r.Wall.Seconds(),
			"undecided": r.Undecided,
		})
	}
	var fnList []string
	for k, v := range funcs {
		fnList = append(fnList, k+" @ "+v)
	}
	sort.Strings(fnList)
	if len(samples) == 0 {
		samples = append(samples, map[string]interface{}{"note": "no path was explored", "undecided": undecided})
	}
	cov := map[string]interface{}{
		"states":                        max(paths, 1),
		"transitions":                   max(forks+paths, 1),
		"traces_validated_against_impl": replays,
		"samples":                       samples,
		"obligations":                   obl,
		"discharged":                    dis,
		"exhaustive":                    len(undecided) == 0,
		"explanation": "states = feasible paths of the real SSA explored to their end (each under a fully symbolic input vector); transitions = paths + branch forks decided by the solver; " +
			"obligations = assertion queries sat(PC and not P); discharged = those answered unsat; traces_validated_against_impl = counterexamples (canaries included) replayed natively with go test -overlay",
		"functions_encoded":      fnList,
		"functions_encoded_n":    len(fnList),
		"jobs":                   jobs,
		"solver_queries":         sq,
		"solver_time_s":          st.Seconds(),
		"inconclusive_queries":   unk,
		"ssa_instructions_run":   steps,
		"stubs_hit":              stubs,
		"assumes_pruned_paths":   pruned,
		"labels_reached":         reached,
		"undecided":              undecided,
		"violations_confirmed":   confirmed,
	}
	for k, v := range extra {
		cov[k] = v
	}
	ev := map[string]interface{}{
		"property_id": id,
		"tier":        tier,
		"seed":        seed,
		"level":       "model_checking",
		"coverage":    cov,
		"assumptions": []string{
			"bounded symbolic execution of go/ssa built from /repo's working tree at run time; bounds per job are listed under coverage.jobs[].bounds",
			"environment stubs listed under coverage.stubs_hit follow DESIGN.md section 3.5 (sequentially consistent atomics, arbitrary hash function, arbitrary random numbers, FIFO gob)",
			"solver: z3 5.1.0 (z3-new) primary; sampled assertion queries re-decided by z3 4.8.12 and cvc5 1.0",
			"nothing is claimed outside the stated bounds",
		},
		"wall_s":     wall.Seconds(),
		"violations": len(confirmed),
	}
	b, _ := json.MarshalIndent(ev, "", " ")
	dir := envOr("VERIF_EVIDENCE_DIR", filepath.Join(verifDir, "evidence"))
	os.MkdirAll(dir, 0o755)
	if err := os.WriteFile(filepath.Join(dir, id+".json"), b, 0o644); err != nil {
		fmt.Fprintln(os.Stderr, "evidence:", err)
	}
}
