package main

import (
	"encoding/json"
	"flag"
	"fmt"
	"os"
	"os/exec"
	"path/filepath"
	"regexp"
	"runtime"
	"sort"
	"strconv"
	"strings"
	"sync"
	"time"
)

func usage() {
	fmt.Fprintln(os.Stderr, `usage:
  gosym check <ID> [--tier quick|thorough] [--workers N] [--job NAME] [--verbose]
  gosym replay <path>
  gosym list`)
	os.Exit(2)
}

func main() {
	if len(os.Args) < 2 {
		usage()
	}
	defer cleanupScratch()
	os.Setenv("PATH", "/opt/veriftools/go1.26.8/bin:"+os.Getenv("PATH"))
	os.Setenv("GOTOOLCHAIN", "local")
	os.Setenv("GOFLAGS", "-mod=mod")
	os.Setenv("GOPROXY", "off")
	os.Setenv("GOSUMDB", "off")
	switch os.Args[1] {
	case "check":
		os.Exit(cmdCheck(os.Args[2:]))
	case "replay":
		os.Exit(cmdReplay(os.Args[2:]))
	case "list":
		for _, id := range allProps() {
			for _, tier := range []string{"quick", "thorough"} {
				for _, j := range jobsFor(id, tier) {
					fmt.Printf("%s %s %s %s.%s %v\n", id, tier, j.Name, j.Pkg, j.Func, j.Params)
				}
			}
		}
	default:
		usage()
	}
}

type knownFinding struct {
	Property string `json:"property"`
	Label    string `json:"label"`
	Scenario string `json:"scenario"`
	ScenRe   string `json:"scenario_re,omitempty"` // alternative to scenario: the scenario must match this regular expression
	Job      string `json:"job,omitempty"` // optional: restrict to one job name prefix
	What     string `json:"what"`
	Status   string `json:"status"` // "known" or "fixed"
	Commit   string `json:"commit,omitempty"`
}

func loadKnown() []knownFinding {
	var out []knownFinding
	b, err := os.ReadFile(filepath.Join(verifDir, "known_findings.jsonl"))
	if err != nil {
		return nil
	}
	for _, l := range strings.Split(string(b), "\n") {
		l = strings.TrimSpace(l)
		if l == "" || strings.HasPrefix(l, "#") {
			continue
		}
		var k knownFinding
		if json.Unmarshal([]byte(l), &k) == nil {
			out = append(out, k)
		}
	}
	return out
}

func cmdCheck(args []string) int {
	if len(args) < 1 {
		usage()
	}
	id := args[0]
	fs := flag.NewFlagSet("check", flag.ExitOnError)
	tier := fs.String("tier", envOr("VERIF_TIER", "quick"), "quick|thorough")
	workers := fs.Int("workers", runtime.NumCPU(), "parallel workers")
	only := fs.String("job", "", "run only jobs whose name has this prefix")
	verbose := fs.Bool("verbose", false, "verbose")
	solver := fs.String("solver", "z3-new", "primary solver binary")
	noReplay := fs.Bool("no-replay", false, "skip native replay (debug)")
	noNSR := fs.Bool("no-native-schedule", false, "skip the native replay of concurrent counterexamples with the schedule forced (interpretive replay only)")
	nsrTried, nsrOK := 0, 0
	keep := fs.Bool("keep-queries", false, "keep dumped assertion queries")
	maxPaths := fs.Int("max-paths", 0, "override path budget (debug)")
	fs.Parse(args[1:])
	seed := 0
	if s := os.Getenv("VERIF_SEED"); s != "" {
		seed, _ = strconv.Atoi(s)
	}
	t0 := time.Now()
	jobs := jobsFor(id, *tier)
	if len(jobs) == 0 {
		fmt.Fprintf(os.Stderr, "no jobs for %s\n", id)
		return 2
	}
	tl := time.Now()
	P, err := loadProgram()
	if err != nil {
		fmt.Fprintf(os.Stderr, "UNDECIDED property=%s: %v\n", id, err)
		writeEvidence(id, *tier, seed, nil, nil, []string{"load failed: " + err.Error()}, time.Since(t0), 0, nil)
		return 2
	}
	loadT := time.Since(tl)
	queryDir := filepath.Join(scratchDir(), "queries")
	var results []*JobResult
	for _, j := range jobs {
		if *only != "" && !strings.HasPrefix(j.Name, *only) {
			continue
		}
		j.Verbose = *verbose
		if *maxPaths > 0 {
			j.B.MaxPaths = *maxPaths
		}
		r := RunJob(P, j, *workers, *solver, nil, queryDir)
		results = append(results, r)
		fmt.Printf("job %-40s paths=%d forks=%d obligations=%d discharged=%d violations=%d unknown=%d solverq=%d wall=%.1fs aborts=%v\n",
			j.Name, r.Paths, r.Forks, r.Obligations, r.Discharged, len(r.Violations), r.Unknown+r.UnknownAssert, r.SolverQueries, r.Wall.Seconds(), r.Aborts)
		if *verbose {
			for k, m := range r.AbortMsgs {
				fmt.Printf("   abort[%s]: %s\n", k, m)
			}
		}
		for _, u := range r.Undecided {
			fmt.Printf("   undecided: %s\n", u)
		}
	}
	// ---- translator self-test: the engine's concrete trace must equal the native build's trace ----
	selfOK, selfN := 0, 0
	var selfUndecided []string
	for _, r := range results {
		if !r.Job.Selftest {
			continue
		}
		selfN++
		if r.Paths != 1 || len(r.Violations) > 0 {
			selfUndecided = append(selfUndecided, fmt.Sprintf("%s: self-test scenario is not a single clean concrete path (paths=%d violations=%d)", r.Job.Name, r.Paths, len(r.Violations)))
			continue
		}
		nat, err := nativeTrace(r.Job)
		if err != "" {
			selfUndecided = append(selfUndecided, fmt.Sprintf("%s: native self-test run failed: %s", r.Job.Name, err))
			continue
		}
		if strings.Join(nat, "\n") != strings.Join(r.Trace, "\n") {
			d := ""
			for i := 0; i < len(nat) || i < len(r.Trace); i++ {
				a, b := "<none>", "<none>"
				if i < len(nat) {
					a = nat[i]
				}
				if i < len(r.Trace) {
					b = r.Trace[i]
				}
				if a != b {
					d = fmt.Sprintf("first difference at %d: native %s, engine %s", i, a, b)
					break
				}
			}
			selfUndecided = append(selfUndecided, fmt.Sprintf("%s: TRANSLATOR MISMATCH (%d native vs %d engine trace entries; %s)", r.Job.Name, len(nat), len(r.Trace), d))
			continue
		}
		selfOK++
		fmt.Printf("selftest %-38s engine trace == native trace (%d values)\n", r.Job.Name, len(nat))
	}
	// ---- triage violations: canaries, known findings, native replay ----
	known := loadKnown()
	exit := 0
	var undecided []string
	var confirmed []*Violation
	var knownLines []string
	replays := 0
	canaryOK := 0
	canaries := 0
	type item struct {
		r      *JobResult
		v      *Violation
		canary bool
	}
	var items []item
	for _, r := range results {
		undecided = append(undecided, prefixAll(r.Job.Name+": ", r.Undecided)...)
		seen := map[string]*Violation{}
		var keys []string
		for _, v := range r.Violations {
			if _, ok := seen[v.key()]; !ok {
				seen[v.key()] = v
				keys = append(keys, v.key())
			}
		}
		sort.Strings(keys)
		if r.Job.Canary != "" {
			canaries++
			found := false
			for _, k := range keys {
				if seen[k].Label == r.Job.Canary {
					found = true
					items = append(items, item{r, seen[k], true})
					break
				}
			}
			if !found {
				undecided = append(undecided, fmt.Sprintf("%s: canary %s was not violated (vacuous or over-constrained harness)", r.Job.Name, r.Job.Canary))
			}
		}
		for _, k := range keys {
			v := seen[k]
			if r.Job.Canary != "" && v.Label == r.Job.Canary {
				continue
			}
			if kf := matchKnown(known, v); kf != nil {
				knownLines = append(knownLines, fmt.Sprintf("KNOWN-FINDING: property=%s %s [label %s]", id, kf.What, v.Label))
				continue
			}
			items = append(items, item{r, v, false})
		}
	}
	undecided = append(undecided, selfUndecided...)
	rr := map[*Violation]replayRes{}
	if !*noReplay {
		var vs []*Violation
		for _, it := range items {
			if it.r.Job.B.Preempt > 0 {
				// concurrent counterexample: the schedule is part of it; replayed by the engine itself with all
				// inputs and scheduling decisions substituted (replay-mode=interp)
				out, ok := InterpReplay(P, it.r.Job, it.v)
				mode := " replay-mode=interp"
				if ok && !*noNSR {
					if nout, nok := nativeSchedReplay(it.v); nok {
						mode = " replay-mode=native-schedule " + nout
						nsrOK++
					} else {
						mode += " (" + nout + ")"
					}
					nsrTried++
				}
				rr[it.v] = replayRes{out + mode, ok}
				replays++
				continue
			}
			vs = append(vs, it.v)
		}
		for v, x := range replayAll(vs) {
			rr[v] = x
		}
		replays += len(vs)
	}
	for _, it := range items {
		v := it.v
		if it.canary {
			if *noReplay || rr[v].ok {
				canaryOK++
			} else {
				undecided = append(undecided, fmt.Sprintf("%s: canary %s found but did not replay natively (%s)", it.r.Job.Name, v.Label, rr[v].out))
			}
			continue
		}
		path := saveReplay(v)
		if *noReplay {
			fmt.Printf("CANDIDATE property=%s label=%s scenario=%s job=%s replay=%s (not replayed)\n", id, v.Label, v.Scenario, v.Job, path)
			confirmed = append(confirmed, v)
			exit = 1
			continue
		}
		if rr[v].ok {
			confirmed = append(confirmed, v)
			fmt.Printf("VIOLATION property=%s replay=%s label=%s scenario=%q job=%s native=%q\n", id, path, v.Label, v.Scenario, v.Job, rr[v].out)
			exit = 1
		} else {
			fmt.Printf("ENGINE-MISMATCH property=%s label=%s job=%s replay=%s native=%q\n", id, v.Label, v.Job, path, rr[v].out)
			undecided = append(undecided, fmt.Sprintf("%s: counterexample for %s did not reproduce natively (%s)", it.r.Job.Name, v.Label, rr[v].out))
		}
	}
	for _, l := range uniq(knownLines) {
		fmt.Println(l)
	}
	// solver cross-check on dumped assertion queries
	diffN, diffBad := solverDiff(queryDir, *tier, seed)
	if diffBad != "" {
		undecided = append(undecided, diffBad)
	}
	if !*keep {
		os.RemoveAll(queryDir)
	}
	writeEvidence(id, *tier, seed, results, confirmed, undecided, time.Since(t0), replays+selfOK, map[string]interface{}{
		"load_s": loadT.Seconds(), "translator_selftests": selfN, "translator_selftests_identical": selfOK, "canaries": canaries, "canaries_confirmed_natively": canaryOK, "solver_diff_queries": diffN,
		"known_findings_hit": uniq(knownLines),
		"native_schedule_replays_tried": nsrTried, "native_schedule_replays_reproduced": nsrOK,
	})
	if exit == 1 {
		return 1
	}
	if len(undecided) > 0 {
		for _, u := range undecided {
			fmt.Printf("UNDECIDED property=%s: %s\n", id, u)
		}
		return 2
	}
	fmt.Printf("OK property=%s tier=%s wall=%.1fs\n", id, *tier, time.Since(t0).Seconds())
	return 0
}

func prefixAll(p string, xs []string) []string {
	var out []string
	for _, x := range xs {
		out = append(out, p+x)
	}
	return out
}

func matchKnown(known []knownFinding, v *Violation) *knownFinding {
	for i := range known {
		k := &known[i]
		if k.Status == "fixed" {
			continue
		}
		if k.Property != v.Property || k.Label != v.Label || (k.Job != "" && !strings.HasPrefix(v.Job, k.Job)) {
			continue
		}
		if k.ScenRe != "" {
			if re, err := regexp.Compile("^(?:" + k.ScenRe + ")$"); err == nil && re.MatchString(v.Scenario) {
				return k
			}
			continue
		}
		if k.Scenario == v.Scenario {
			return k
		}
	}
	return nil
}

func saveReplay(v *Violation) string {
	dir := envOr("VERIF_REPLAYS_DIR", filepath.Join(verifDir, "replays"))
	os.MkdirAll(dir, 0o755)
	name := fmt.Sprintf("%s_%s_%s.json", v.Property, sanitize(v.Job), sanitize(v.Label+"_"+v.Scenario))
	p := filepath.Join(dir, name)
	b, _ := json.MarshalIndent(v, "", " ")
	os.WriteFile(p, b, 0o644)
	return p
}

var (
	testBinMu  sync.Mutex
	testBins   = map[string]string{}
	testBinErr = map[string]string{}
)

// ensureTestBin builds (once per process and package) the test binary that contains the harnesses, the
// native harness runtime and the environment overlays, from /repo's current working tree.
func ensureTestBin(pkg string) (string, string) { return ensureTestBinMode(pkg, false) }

// ensureTestBinMode: with sched=true the binary is built from copies whose synchronisation goes through the shims
// (native schedule replay, nsr.go).
func ensureTestBinMode(pkgPath string, sched bool) (string, string) {
	testBinMu.Lock()
	defer testBinMu.Unlock()
	pkg := pkgPath
	if sched {
		pkg = pkgPath + "#sched"
	}
	if b, ok := testBins[pkg]; ok {
		return b, testBinErr[pkg]
	}
	_, real, err := harnessOverlay(true)
	if err != nil {
		testBins[pkg], testBinErr[pkg] = "", err.Error()
		return "", err.Error()
	}
	dir := filepath.Join(scratchDir(), "replaybin", sanitize(pkg))
	os.MkdirAll(dir, 0o755)
	// environment overlays: table-driven hasher and replayed random numbers (same contracts as the engine stubs)
	real[filepath.Join(repoDir, "internal/xruntime/hasher.go")] = filepath.Join(verifDir, "harness/rt/xruntime_hasher_replay.go.txt")
	if src, err := os.ReadFile(filepath.Join(repoDir, "internal/xruntime/xruntime.go")); err == nil && strings.Contains(string(src), "return rand.Uint32()") {
		mod := strings.Replace(string(src), "return rand.Uint32()", "if v, ok := ZZRand32(); ok {\n\t\treturn v\n\t}\n\treturn rand.Uint32()", 1)
		rp := filepath.Join(dir, "xruntime.go")
		os.WriteFile(rp, []byte(mod), 0o644)
		real[filepath.Join(repoDir, "internal/xruntime/xruntime.go")] = rp
	}
	if sched {
		// the package's own test files are compiled against the real sync/atomic types and are not needed by the replay
		// test: leave them out of this build (an overlay entry with an empty path deletes the file)
		relDir := strings.TrimPrefix(strings.TrimPrefix(pkgPath, repoModule), "/")
		if tests, _ := filepath.Glob(filepath.Join(repoDir, relDir, "*_test.go")); tests != nil {
			for _, t := range tests {
				if _, ok := real[t]; !ok {
					real[t] = ""
				}
			}
		}
		if err := schedOverlay(real, dir); err != nil {
			testBins[pkg], testBinErr[pkg] = "", "rewrite for native schedule replay failed: "+err.Error()
			return "", testBinErr[pkg]
		}
	}
	b, _ := json.Marshal(map[string]map[string]string{"Replace": real})
	ovPath := filepath.Join(dir, "overlay.json")
	os.WriteFile(ovPath, b, 0o644)
	rel := strings.TrimPrefix(strings.TrimPrefix(pkgPath, repoModule), "/")
	if rel == "" {
		rel = "."
	}
	bin := filepath.Join(dir, "replay.test")
	cmd := exec.Command("go", "test", "-c", "-vet=off", "-overlay", ovPath, "-o", bin, "./"+rel)
	cmd.Dir = repoDir
	cmd.Env = goEnv()
	out, err := cmd.CombinedOutput()
	if err != nil {
		testBins[pkg], testBinErr[pkg] = "", "build failed: "+firstLines(string(out), 4)
		return "", testBinErr[pkg]
	}
	testBins[pkg] = bin
	return bin, ""
}

// nativeReplay runs the counterexample against the real build and reports whether it reproduces.
func nativeReplay(v *Violation) (string, bool) {
	bin, berr := ensureTestBin(v.Pkg)
	if bin == "" {
		return berr, false
	}
	dir := filepath.Join(scratchDir(), fmt.Sprintf("replay%d", time.Now().UnixNano()))
	os.MkdirAll(dir, 0o755)
	defer os.RemoveAll(dir)
	rb, _ := json.Marshal(v)
	rp := filepath.Join(dir, "replay.json")
	os.WriteFile(rp, rb, 0o644)
	rel := strings.TrimPrefix(strings.TrimPrefix(v.Pkg, repoModule), "/")
	cmd := exec.Command(bin, "-test.run", "^TestZZReplay$", "-test.v", "-test.timeout", "120s")
	cmd.Dir = filepath.Join(repoDir, rel)
	cmd.Env = append(goEnv(), "VERIF_REPLAY="+rp)
	out, _ := cmd.CombinedOutput()
	txt := string(out)
	line := ""
	for _, l := range strings.Split(txt, "\n") {
		if strings.HasPrefix(l, "ZZ-REPLAY-") {
			line = l
		}
	}
	if line == "" {
		// crashed (e.g. a panic on another goroutine)
		if strings.Contains(txt, "zzAssertFailure") {
			i := strings.Index(txt, "zzAssertFailure")
			line = "ZZ-REPLAY-ASSERT(goroutine) " + firstLine(txt[i:])
		} else if strings.Contains(txt, "panic:") {
			i := strings.Index(txt, "panic:")
			line = "ZZ-REPLAY-PANIC " + firstLine(txt[i:])
		} else if strings.Contains(txt, "fatal error: all goroutines are asleep") || strings.Contains(txt, "test timed out") {
			line = "ZZ-REPLAY-HANG"
		} else {
			line = "ZZ-REPLAY-NOOUTPUT " + firstLine(txt)
		}
	}
	switch v.Kind {
	case "assert":
		return line, strings.HasPrefix(line, "ZZ-REPLAY-ASSERT") && strings.Contains(line, v.Label)
	case "panic":
		return line, strings.HasPrefix(line, "ZZ-REPLAY-PANIC")
	case "deadlock":
		return line, strings.HasPrefix(line, "ZZ-REPLAY-HANG")
	}
	return line, false
}

// nativeTrace runs a self-test scenario in the native test binary and returns its vTrace lines.
func nativeTrace(job *Job) ([]string, string) {
	bin, berr := ensureTestBin(job.Pkg)
	if bin == "" {
		return nil, berr
	}
	dir := filepath.Join(scratchDir(), fmt.Sprintf("selftest%d", time.Now().UnixNano()))
	os.MkdirAll(dir, 0o755)
	defer os.RemoveAll(dir)
	rb, _ := json.Marshal(map[string]interface{}{"func": job.Func, "params": job.Params, "nondets": []int{}})
	rp := filepath.Join(dir, "replay.json")
	os.WriteFile(rp, rb, 0o644)
	rel := strings.TrimPrefix(strings.TrimPrefix(job.Pkg, repoModule), "/")
	cmd := exec.Command(bin, "-test.run", "^TestZZReplay$", "-test.v", "-test.timeout", "120s")
	cmd.Dir = filepath.Join(repoDir, rel)
	cmd.Env = append(goEnv(), "VERIF_REPLAY="+rp)
	out, _ := cmd.CombinedOutput()
	var tr []string
	completed := false
	for _, l := range strings.Split(string(out), "\n") {
		if strings.HasPrefix(l, "ZZ-TRACE ") {
			tr = append(tr, strings.TrimPrefix(l, "ZZ-TRACE "))
		}
		if strings.HasPrefix(l, "ZZ-REPLAY-COMPLETED") {
			completed = true
		}
	}
	if !completed {
		return nil, firstLine(string(out))
	}
	return tr, ""
}

type replayRes struct {
	out string
	ok  bool
}

// replayAll replays the given counterexamples natively, in parallel.
func replayAll(vs []*Violation) map[*Violation]replayRes {
	res := map[*Violation]replayRes{}
	var mu sync.Mutex
	var wg sync.WaitGroup
	sem := make(chan struct{}, 8)
	for _, v := range vs {
		wg.Add(1)
		go func() {
			defer wg.Done()
			sem <- struct{}{}
			defer func() { <-sem }()
			out, ok := nativeReplay(v)
			mu.Lock()
			res[v] = replayRes{out, ok}
			mu.Unlock()
		}()
	}
	wg.Wait()
	return res
}

func firstLine(s string) string {
	if i := strings.IndexByte(s, '\n'); i >= 0 {
		s = s[:i]
	}
	if len(s) > 300 {
		s = s[:300]
	}
	return s
}

func cmdReplay(args []string) int {
	if len(args) < 1 {
		usage()
	}
	b, err := os.ReadFile(args[0])
	if err != nil {
		fmt.Fprintln(os.Stderr, err)
		return 2
	}
	var v Violation
	if err := json.Unmarshal(b, &v); err != nil {
		fmt.Fprintln(os.Stderr, err)
		return 2
	}
	verbose := false
	for _, a := range args[1:] {
		if a == "--verbose" {
			verbose = true
		}
	}
	out, ok := nativeReplay(&v)
	fmt.Printf("replay of %s label=%s: %s\n", args[0], v.Label, out)
	if ok {
		fmt.Printf("VIOLATION property=%s replay=%s\n", v.Property, args[0])
		return 1
	}
	// counterexamples that depend on a schedule (or on engine-side symbolic hashes) are replayed by the engine itself:
	// every input and every scheduling decision substituted, no solver in the loop
	var job *Job
	for _, tier := range []string{"quick", "thorough"} {
		for _, j := range jobsFor(v.Property, tier) {
			if j.Name == v.Job {
				job = j
			}
		}
	}
	if job == nil {
		fmt.Println("did not reproduce natively; job " + v.Job + " is not registered any more, no interpretive replay")
		return 0
	}
	P, err := loadProgram()
	if err != nil {
		fmt.Fprintln(os.Stderr, err)
		return 2
	}
	defer cleanupScratch()
	job.Verbose = verbose
	iout, iok := InterpReplay(P, job, &v)
	fmt.Printf("interpretive replay (schedule and inputs substituted): %s\n", iout)
	for _, l := range v.Trace {
		fmt.Println("  vLog:", l)
	}
	if iok {
		nout, nok := nativeSchedReplay(&v)
		fmt.Println(nout)
		mode := "interp"
		if nok {
			mode = "native-schedule"
		}
		fmt.Printf("VIOLATION property=%s replay=%s replay-mode=%s\n", v.Property, args[0], mode)
		return 1
	}
	fmt.Println("did not reproduce")
	return 0
}

// solverDiff re-decides dumped assertion queries with z3 4.8.12 and cvc5 and compares with each other.
func solverDiff(dir, tier string, seed int) (int, string) {
	files, _ := filepath.Glob(filepath.Join(dir, "*.smt2"))
	if len(files) == 0 {
		return 0, ""
	}
	sort.Strings(files)
	limit := 8
	if tier == "thorough" {
		limit = 100
	}
	// seeded sample
	rnd := uint64(seed)*6364136223846793005 + 1442695040888963407
	pick := map[int]bool{}
	for len(pick) < limit && len(pick) < len(files) {
		rnd = rnd*6364136223846793005 + 1442695040888963407
		pick[int((rnd>>33)%uint64(len(files)))] = true
	}
	n := 0
	type res struct{ f, a, b, c string }
	ch := make(chan res, len(pick))
	sem := make(chan struct{}, runtime.NumCPU())
	for i := range pick {
		f := files[i]
		go func() {
			sem <- struct{}{}
			defer func() { <-sem }()
			a := runSolver("z3-new", []string{"-T:20", f})
			b := runSolver("z3", []string{"-T:20", f})
			c := runSolver("cvc5", []string{"--tlimit=20000", "--solve-bv-as-int=sum", f})
			ch <- res{f, a, b, c}
		}()
	}
	bad := ""
	for range pick {
		r := <-ch
		n++
		verd := map[string]bool{}
		for _, x := range []string{r.a, r.b, r.c} {
			if x == "sat" || x == "unsat" {
				verd[x] = true
			}
		}
		if len(verd) > 1 {
			keep := filepath.Join(verifDir, "replays", "solver_disagreement_"+filepath.Base(r.f))
			b, _ := os.ReadFile(r.f)
			writeFile(keep, string(b))
			bad = fmt.Sprintf("solver disagreement on %s: z3-new=%s z3=%s cvc5=%s", keep, r.a, r.b, r.c)
		}
		if strings.HasPrefix(r.a, "error") || strings.HasPrefix(r.b, "error") {
			bad = fmt.Sprintf("solver error on %s: z3-new=%s z3=%s cvc5=%s", filepath.Base(r.f), r.a, r.b, r.c)
		}
	}
	return n, bad
}

func runSolver(bin string, args []string) string {
	out, _ := exec.Command(bin, args...).CombinedOutput()
	s := string(out)
	if strings.Contains(s, "(error") {
		return "error:" + firstLine(s)
	}
	for _, l := range strings.Split(s, "\n") {
		l = strings.TrimSpace(l)
		if l == "sat" || l == "unsat" || l == "unknown" || l == "timeout" {
			return l
		}
	}
	return "unknown"
}


func firstLines(s string, n int) string {
	ls := strings.Split(strings.TrimSpace(s), "\n")
	if len(ls) > n {
		ls = ls[:n]
	}
	return strings.Join(ls, " | ")
}
