package main

// Environment stubs (every one is part of every claim that uses it) and harness intrinsics.

import (
	"fmt"
	"go/token"
	"go/types"
	"math"
	"math/bits"
	"sort"
	"strings"

	"golang.org/x/tools/go/ssa"
)

type intrinsic func(in *Interp, caller *frame, fn *ssa.Function, args []Value) Value

var stdInitWhitelist = map[string]bool{"io": true, "context": true}

func lookupIntrinsic(p *Program, fn *ssa.Function, fi *fnInfo) intrinsic {
	if fi.isRT {
		if h, ok := rtIntrinsics[fn.Name()]; ok {
			return h
		}
		return nil
	}
	if fn.Synthetic == "package initializer" && !fi.inRepo {
		if fn.Pkg != nil && stdInitWhitelist[fn.Pkg.Pkg.Path()] {
			return nil
		}
		return func(in *Interp, caller *frame, fn *ssa.Function, args []Value) Value { return nil }
	}
	if fi.inRepo {
		return nil
	}
	name := p.fnName(fn)
	if h, ok := stdIntrinsics[name]; ok {
		return h
	}
	// generic instantiations: match by prefix before '['
	if i := strings.IndexByte(name, '['); i > 0 {
		if h, ok := stdIntrinsics[name[:i]]; ok {
			return h
		}
	}
	return nil
}

func (in *Interp) stubHit(name string) {
	in.run.stubHit(name)
}

func cu64(in *Interp, v Value) uint64 {
	t := v.(*Term)
	if !t.IsConst() {
		return in.run.concretise(in, t, "intrinsic-arg")
	}
	return t.c
}

var stdIntrinsics map[string]intrinsic
var rtIntrinsics map[string]intrinsic

func init() {
	stdIntrinsics = map[string]intrinsic{}
	rtIntrinsics = map[string]intrinsic{}
	// ---- sync/atomic leaf functions: sequentially consistent ----
	for _, ty := range []string{"Int32", "Int64", "Uint32", "Uint64", "Uintptr", "Pointer"} {
		ty := ty
		stdIntrinsics["sync/atomic.Load"+ty] = func(in *Interp, c *frame, fn *ssa.Function, a []Value) Value {
			return in.atomicLoad(a[0].(*Ptr))
		}
		stdIntrinsics["sync/atomic.Store"+ty] = func(in *Interp, c *frame, fn *ssa.Function, a []Value) Value {
			in.atomicStore(a[0].(*Ptr), a[1])
			return nil
		}
		stdIntrinsics["sync/atomic.Swap"+ty] = func(in *Interp, c *frame, fn *ssa.Function, a []Value) Value {
			return in.atomicSwap(a[0].(*Ptr), a[1])
		}
		stdIntrinsics["sync/atomic.CompareAndSwap"+ty] = func(in *Interp, c *frame, fn *ssa.Function, a []Value) Value {
			return in.atomicCAS(a[0].(*Ptr), a[1], a[2])
		}
		if ty != "Pointer" {
			stdIntrinsics["sync/atomic.Add"+ty] = func(in *Interp, c *frame, fn *ssa.Function, a []Value) Value {
				return in.atomicRMW(a[0].(*Ptr), func(old *Term) *Term { return in.tb.Add(old, a[1].(*Term)) }, true)
			}
			stdIntrinsics["sync/atomic.And"+ty] = func(in *Interp, c *frame, fn *ssa.Function, a []Value) Value {
				return in.atomicRMW(a[0].(*Ptr), func(old *Term) *Term { return in.tb.BAnd(old, a[1].(*Term)) }, false)
			}
			stdIntrinsics["sync/atomic.Or"+ty] = func(in *Interp, c *frame, fn *ssa.Function, a []Value) Value {
				return in.atomicRMW(a[0].(*Ptr), func(old *Term) *Term { return in.tb.BOr(old, a[1].(*Term)) }, false)
			}
		}
	}
	// ---- sync ----
	stdIntrinsics["(*sync.Mutex).Lock"] = func(in *Interp, c *frame, fn *ssa.Function, a []Value) Value {
		in.mutexLock(a[0].(*Ptr))
		return nil
	}
	stdIntrinsics["(*sync.Mutex).Unlock"] = func(in *Interp, c *frame, fn *ssa.Function, a []Value) Value {
		in.mutexUnlock(a[0].(*Ptr))
		return nil
	}
	stdIntrinsics["(*sync.Mutex).TryLock"] = func(in *Interp, c *frame, fn *ssa.Function, a []Value) Value {
		return in.tb.Bool(in.mutexTryLock(a[0].(*Ptr)))
	}
	stdIntrinsics["(*sync.RWMutex).Lock"] = stdIntrinsics["(*sync.Mutex).Lock"]
	stdIntrinsics["(*sync.RWMutex).Unlock"] = stdIntrinsics["(*sync.Mutex).Unlock"]
	stdIntrinsics["(*sync.RWMutex).RLock"] = func(in *Interp, c *frame, fn *ssa.Function, a []Value) Value {
		m := in.mutexOf(a[0].(*Ptr))
		in.visible("rwmutex.rlock")
		for m.locked {
			in.blockOn(m, func() bool { return !m.locked }, "rwmutex.rlock")
		}
		m.readers++
		in.traceOp("rwmutex.rlock")
		in.hbAcquire(&m.vc)
		return nil
	}
	stdIntrinsics["(*sync.RWMutex).RUnlock"] = func(in *Interp, c *frame, fn *ssa.Function, a []Value) Value {
		m := in.mutexOf(a[0].(*Ptr))
		in.visible("rwmutex.runlock")
		in.traceOp("rwmutex.runlock")
		in.hbRelease(&m.vc)
		m.readers--
		return nil
	}
	stdIntrinsics["(*sync.WaitGroup).Add"] = func(in *Interp, c *frame, fn *ssa.Function, a []Value) Value {
		w := in.wgOf(a[0].(*Ptr))
		in.visible("wg.add")
		in.traceOp("wg.add")
		d := int(sext64(cu64(in, a[1]), 64))
		in.hbRelease(&w.vc)
		w.n += d
		if w.n < 0 {
			in.runtimePanic("sync: negative WaitGroup counter")
		}
		return nil
	}
	stdIntrinsics["(*sync.WaitGroup).Done"] = func(in *Interp, c *frame, fn *ssa.Function, a []Value) Value {
		w := in.wgOf(a[0].(*Ptr))
		in.visible("wg.done")
		in.traceOp("wg.done")
		in.hbRelease(&w.vc)
		w.n--
		if w.n < 0 {
			in.runtimePanic("sync: negative WaitGroup counter")
		}
		return nil
	}
	stdIntrinsics["(*sync.WaitGroup).Wait"] = func(in *Interp, c *frame, fn *ssa.Function, a []Value) Value {
		w := in.wgOf(a[0].(*Ptr))
		in.visible("wg.wait")
		in.blockOn(w, func() bool { return w.n == 0 }, "wg.wait")
		in.traceOp("wg.wait")
		in.hbAcquire(&w.vc)
		return nil
	}
	stdIntrinsics["(*sync.WaitGroup).Go"] = func(in *Interp, c *frame, fn *ssa.Function, a []Value) Value {
		w := in.wgOf(a[0].(*Ptr))
		w.n++
		f := a[1]
		body := &FuncV{name: "wg.Go", native: func(in *Interp, _ []Value) Value {
			in.call(nil, token.NoPos, f, nil)
			in.visible("wg.done")
			in.traceOp("wg.done")
			in.hbRelease(&w.vc)
			w.n--
			return nil
		}}
		in.spawn(body, nil, token.NoPos)
		return nil
	}
	stdIntrinsics["(*sync.Once).Do"] = func(in *Interp, c *frame, fn *ssa.Function, a []Value) Value {
		cell := in.concretePtr(in.nonNil(a[0].(*Ptr), "once"), "once")
		o := in.onces[cell]
		if o == nil {
			o = &onceState{}
			in.onces[cell] = o
		}
		in.visible("once.do")
		in.traceOp("once.do")
		if o.done {
			in.hbAcquire(&o.vc)
			return nil
		}
		if o.running {
			in.blockOn(o, func() bool { return o.done }, "once.do")
			in.hbAcquire(&o.vc)
			return nil
		}
		o.running = true
		defer func() {
			o.done = true
			o.running = false
			in.hbRelease(&o.vc)
		}()
		in.call(c, token.NoPos, a[1], nil)
		return nil
	}
	stdIntrinsics["(*sync.Cond).Wait"] = func(in *Interp, c *frame, fn *ssa.Function, a []Value) Value {
		cell := in.concretePtr(in.nonNil(a[0].(*Ptr), "cond"), "cond")
		cs := in.condOf(cell)
		// field L (Locker interface)
		l := in.condLocker(cell)
		gen := cs.gen
		in.invokeMethod(c, l, "Unlock")
		in.blockOn(cs, func() bool { return cs.gen != gen }, "cond.wait")
		in.hbAcquire(&cs.vc)
		in.invokeMethod(c, l, "Lock")
		return nil
	}
	stdIntrinsics["(*sync.Cond).Broadcast"] = func(in *Interp, c *frame, fn *ssa.Function, a []Value) Value {
		cell := in.concretePtr(in.nonNil(a[0].(*Ptr), "cond"), "cond")
		cs := in.condOf(cell)
		in.visible("cond.broadcast")
		in.hbRelease(&cs.vc)
		cs.gen++
		return nil
	}
	stdIntrinsics["(*sync.Cond).Signal"] = stdIntrinsics["(*sync.Cond).Broadcast"]
	stdIntrinsics["(*sync.Pool).Get"] = func(in *Interp, c *frame, fn *ssa.Function, a []Value) Value {
		cell := in.concretePtr(in.nonNil(a[0].(*Ptr), "pool"), "pool")
		in.stubHit("sync.Pool")
		ps := in.pools[cell]
		if ps != nil && len(ps.items) > 0 && in.run.job.B.PoolReuse {
			k := in.run.chooseLimited(in, make([]*Term, 2), "pool.reuse")
			if k == 1 {
				v := ps.items[len(ps.items)-1]
				ps.items = ps.items[:len(ps.items)-1]
				return v
			}
		}
		// New field: last exported field of sync.Pool named "New"
		st := cell.typ.Underlying().(*types.Struct)
		for i := 0; i < st.NumFields(); i++ {
			if st.Field(i).Name() == "New" {
				nf := in.loadCell(cell.kids[i]).(*FuncV)
				if nf.isNil() {
					return &IfaceV{}
				}
				return in.call(c, token.NoPos, nf, nil)
			}
		}
		return &IfaceV{}
	}
	stdIntrinsics["(*sync.Pool).Put"] = func(in *Interp, c *frame, fn *ssa.Function, a []Value) Value {
		cell := in.concretePtr(in.nonNil(a[0].(*Ptr), "pool"), "pool")
		ps := in.pools[cell]
		if ps == nil {
			ps = &poolState{}
			in.pools[cell] = ps
		}
		ps.items = append(ps.items, a[1])
		return nil
	}
	// ---- runtime ----
	stdIntrinsics["runtime.Gosched"] = func(in *Interp, c *frame, fn *ssa.Function, a []Value) Value {
		in.gosched()
		return nil
	}
	stdIntrinsics["runtime.GOMAXPROCS"] = func(in *Interp, c *frame, fn *ssa.Function, a []Value) Value {
		return in.tb.Const(64, uint64(in.run.job.B.Procs))
	}
	stdIntrinsics["runtime.NumCPU"] = stdIntrinsics["runtime.GOMAXPROCS"]
	stdIntrinsics["runtime.AddCleanup"] = func(in *Interp, c *frame, fn *ssa.Function, a []Value) Value {
		in.stubHit("runtime.AddCleanup")
		return in.zero(fn.Signature.Results().At(0).Type())
	}
	stdIntrinsics["runtime.KeepAlive"] = func(in *Interp, c *frame, fn *ssa.Function, a []Value) Value { return nil }
	stdIntrinsics["runtime.SetFinalizer"] = stdIntrinsics["runtime.KeepAlive"]
	stdIntrinsics["runtime/debug.Stack"] = func(in *Interp, c *frame, fn *ssa.Function, a []Value) Value {
		in.stubHit("debug.Stack")
		return in.convert(types.NewSlice(types.Typ[types.Uint8]), types.Typ[types.String], "goroutine 1 [running]:\nstack")
	}
	stdIntrinsics["bytes.IndexByte"] = func(in *Interp, c *frame, fn *ssa.Function, a []Value) Value {
		s := a[0].(*SliceV)
		b := byte(cu64(in, a[1]))
		for i := 0; i < s.len; i++ {
			if byte(cu64(in, in.loadCell(s.arr.kids[s.off+i]))) == b {
				return in.tb.Const(64, uint64(i))
			}
		}
		return in.tb.Const(64, ^uint64(0))
	}
	// ---- time ----
	stdIntrinsics["time.Now"] = func(in *Interp, c *frame, fn *ssa.Function, a []Value) Value {
		in.stubHit("time.Now")
		return in.zero(fn.Signature.Results().At(0).Type())
	}
	stdIntrinsics["time.Since"] = func(in *Interp, c *frame, fn *ssa.Function, a []Value) Value {
		in.stubHit("time.Since")
		return in.tb.Const(64, 0)
	}
	stdIntrinsics["time.Sleep"] = func(in *Interp, c *frame, fn *ssa.Function, a []Value) Value {
		in.gosched()
		return nil
	}
	stdIntrinsics["time.Tick"] = func(in *Interp, c *frame, fn *ssa.Function, a []Value) Value {
		in.nextMap++
		return &ChanV{c: &ChanObj{id: in.nextMap, cap: 1, et: fn.Signature.Results().At(0).Type().Underlying().(*types.Chan).Elem()}}
	}
	// ---- math/bits ----
	stdIntrinsics["math/bits.OnesCount64"] = func(in *Interp, c *frame, fn *ssa.Function, a []Value) Value {
		return in.tb.PopCount(a[0].(*Term))
	}
	stdIntrinsics["math/bits.OnesCount32"] = func(in *Interp, c *frame, fn *ssa.Function, a []Value) Value {
		return in.tb.ZExt(in.tb.PopCount(a[0].(*Term)), 64)
	}
	stdIntrinsics["math/bits.TrailingZeros64"] = func(in *Interp, c *frame, fn *ssa.Function, a []Value) Value {
		return in.tb.TrailingZeros(a[0].(*Term))
	}
	stdIntrinsics["math/bits.TrailingZeros32"] = func(in *Interp, c *frame, fn *ssa.Function, a []Value) Value {
		return in.tb.ZExt(in.tb.TrailingZeros(a[0].(*Term)), 64)
	}
	stdIntrinsics["math/bits.Len64"] = func(in *Interp, c *frame, fn *ssa.Function, a []Value) Value {
		return in.tb.BitLen(a[0].(*Term))
	}
	stdIntrinsics["math/bits.Len32"] = func(in *Interp, c *frame, fn *ssa.Function, a []Value) Value {
		return in.tb.ZExt(in.tb.BitLen(a[0].(*Term)), 64)
	}
	stdIntrinsics["math/bits.LeadingZeros64"] = func(in *Interp, c *frame, fn *ssa.Function, a []Value) Value {
		return in.tb.Sub(in.tb.Const(64, 64), in.tb.BitLen(a[0].(*Term)))
	}
	stdIntrinsics["math.Float64bits"] = func(in *Interp, c *frame, fn *ssa.Function, a []Value) Value {
		return in.tb.Const(64, math.Float64bits(a[0].(float64)))
	}
	stdIntrinsics["math.Float64frombits"] = func(in *Interp, c *frame, fn *ssa.Function, a []Value) Value {
		return math.Float64frombits(cu64(in, a[0]))
	}
	stdIntrinsics["math.Abs"] = func(in *Interp, c *frame, fn *ssa.Function, a []Value) Value { return math.Abs(a[0].(float64)) }
	stdIntrinsics["math.Floor"] = func(in *Interp, c *frame, fn *ssa.Function, a []Value) Value {
		return math.Floor(a[0].(float64))
	}
	stdIntrinsics["math.Ceil"] = func(in *Interp, c *frame, fn *ssa.Function, a []Value) Value { return math.Ceil(a[0].(float64)) }
	// ---- hashing / randomness ----
	stdIntrinsics["hash/maphash.MakeSeed"] = func(in *Interp, c *frame, fn *ssa.Function, a []Value) Value {
		in.stubHit("maphash.MakeSeed")
		in.nextSeed++
		z := in.zero(fn.Signature.Results().At(0).Type()).(*StructV)
		z.f[0] = in.tb.Const(64, uint64(in.nextSeed))
		return z
	}
	stdIntrinsics["hash/maphash.Comparable"] = func(in *Interp, c *frame, fn *ssa.Function, a []Value) Value {
		in.stubHit("maphash.Comparable")
		seed := a[0].(*StructV).f[0].(*Term)
		return in.hashStub(seed, a[1])
	}
	stdIntrinsics["math/rand/v2.Uint32"] = func(in *Interp, c *frame, fn *ssa.Function, a []Value) Value {
		in.stubHit("rand.Uint32")
		return in.nondet("rand32", 32, "rand")
	}
	stdIntrinsics["math/rand/v2.Uint64"] = func(in *Interp, c *frame, fn *ssa.Function, a []Value) Value {
		in.stubHit("rand.Uint64")
		return in.nondet("rand64", 64, "rand")
	}
	// ---- fmt / errors / context ----
	stdIntrinsics["fmt.Sprintf"] = func(in *Interp, c *frame, fn *ssa.Function, a []Value) Value {
		in.stubHit("fmt.Sprintf")
		return "fmt:" + a[0].(string)
	}
	stdIntrinsics["fmt.Sprint"] = func(in *Interp, c *frame, fn *ssa.Function, a []Value) Value {
		in.stubHit("fmt.Sprint")
		return "fmt.Sprint"
	}
	stdIntrinsics["fmt.Println"] = func(in *Interp, c *frame, fn *ssa.Function, a []Value) Value {
		return TupleV{in.tb.Const(64, 0), &IfaceV{}}
	}
	stdIntrinsics["fmt.Printf"] = stdIntrinsics["fmt.Println"]
	stdIntrinsics["fmt.Errorf"] = func(in *Interp, c *frame, fn *ssa.Function, a []Value) Value {
		in.stubHit("fmt.Errorf")
		format := a[0].(string)
		var wrapped *IfaceV
		if strings.Contains(format, "%w") {
			va := a[1].(*SliceV)
			for i := 0; i < va.len; i++ {
				e := in.loadCell(va.arr.kids[va.off+i]).(*IfaceV)
				if e.t != nil && types.Implements(e.t, in.P.errorT.Underlying().(*types.Interface)) {
					wrapped = e
				}
			}
		}
		fmtPkg := in.P.ssa.ImportedPackage("fmt")
		if wrapped != nil {
			wt := fmtPkg.Type("wrapError").Type()
			cell := in.alloc(wt, "fmt.Errorf")
			in.storeCell(cell.kids[0], "fmt:"+format, in.tb.True())
			in.storeCell(cell.kids[1], wrapped, in.tb.True())
			return &IfaceV{t: types.NewPointer(wt), v: in.ptrTo(cell)}
		}
		errPkg := in.P.ssa.ImportedPackage("errors")
		et := errPkg.Type("errorString").Type()
		cell := in.alloc(et, "fmt.Errorf")
		in.storeCell(cell.kids[0], "fmt:"+format, in.tb.True())
		return &IfaceV{t: types.NewPointer(et), v: in.ptrTo(cell)}
	}
	stdIntrinsics["errors.Is"] = func(in *Interp, c *frame, fn *ssa.Function, a []Value) Value {
		return in.tb.Bool(in.errorsIs(c, a[0].(*IfaceV), a[1].(*IfaceV), 0))
	}
	stdIntrinsics["errors.As"] = func(in *Interp, c *frame, fn *ssa.Function, a []Value) Value {
		return in.tb.Bool(in.errorsAs(c, a[0].(*IfaceV), a[1].(*IfaceV), 0))
	}
	stdIntrinsics["context.Background"] = func(in *Interp, c *frame, fn *ssa.Function, a []Value) Value {
		in.stubHit("context.Background")
		ctxPkg := in.P.ssa.ImportedPackage("context")
		bt := ctxPkg.Type("backgroundCtx").Type()
		return &IfaceV{t: bt, v: in.zero(bt)}
	}
	stdIntrinsics["context.TODO"] = stdIntrinsics["context.Background"]
	stdIntrinsics["context.WithoutCancel"] = func(in *Interp, c *frame, fn *ssa.Function, a []Value) Value {
		in.stubHit("context.WithoutCancel")
		if a[0].(*IfaceV).t == nil {
			in.run.notePanic(in, "cannot create context from nil parent")
			panic(targetPanic{v: &IfaceV{t: types.Typ[types.String], v: "cannot create context from nil parent"}})
		}
		return a[0]
	}
	// ---- strings.Builder ----
	sb := func(in *Interp, p Value) *strings.Builder {
		cell := in.concretePtr(in.nonNil(p.(*Ptr), "strings.Builder"), "strings.Builder")
		b := in.strBuilders[cell]
		if b == nil {
			b = &strings.Builder{}
			in.strBuilders[cell] = b
		}
		return b
	}
	stdIntrinsics["(*strings.Builder).WriteString"] = func(in *Interp, c *frame, fn *ssa.Function, a []Value) Value {
		sb(in, a[0]).WriteString(a[1].(string))
		return TupleV{in.tb.Const(64, uint64(len(a[1].(string)))), &IfaceV{}}
	}
	stdIntrinsics["(*strings.Builder).WriteByte"] = func(in *Interp, c *frame, fn *ssa.Function, a []Value) Value {
		sb(in, a[0]).WriteByte(byte(cu64(in, a[1])))
		return &IfaceV{}
	}
	stdIntrinsics["(*strings.Builder).WriteRune"] = func(in *Interp, c *frame, fn *ssa.Function, a []Value) Value {
		n, _ := sb(in, a[0]).WriteRune(rune(cu64(in, a[1])))
		return TupleV{in.tb.Const(64, uint64(n)), &IfaceV{}}
	}
	stdIntrinsics["(*strings.Builder).String"] = func(in *Interp, c *frame, fn *ssa.Function, a []Value) Value {
		return sb(in, a[0]).String()
	}
	stdIntrinsics["(*strings.Builder).Len"] = func(in *Interp, c *frame, fn *ssa.Function, a []Value) Value {
		return in.tb.Const(64, uint64(sb(in, a[0]).Len()))
	}
	stdIntrinsics["(*strings.Builder).Grow"] = func(in *Interp, c *frame, fn *ssa.Function, a []Value) Value { return nil }
	stdIntrinsics["(*strings.Builder).Reset"] = func(in *Interp, c *frame, fn *ssa.Function, a []Value) Value {
		sb(in, a[0]).Reset()
		return nil
	}
	stdIntrinsics["strings.Contains"] = func(in *Interp, c *frame, fn *ssa.Function, a []Value) Value {
		return in.tb.Bool(strings.Contains(a[0].(string), a[1].(string)))
	}
	// ---- encoding/gob: FIFO of values attached to the writer/reader object ----
	stdIntrinsics["encoding/gob.NewEncoder"] = func(in *Interp, c *frame, fn *ssa.Function, a []Value) Value {
		in.stubHit("gob")
		return in.gobHandle(fn, a[0].(*IfaceV))
	}
	stdIntrinsics["encoding/gob.NewDecoder"] = stdIntrinsics["encoding/gob.NewEncoder"]
	stdIntrinsics["(*encoding/gob.Encoder).Encode"] = func(in *Interp, c *frame, fn *ssa.Function, a []Value) Value {
		q := in.gobQueue(a[0].(*Ptr))
		v := a[1].(*IfaceV)
		*q = append(*q, v)
		return &IfaceV{}
	}
	stdIntrinsics["(*encoding/gob.Decoder).Decode"] = func(in *Interp, c *frame, fn *ssa.Function, a []Value) Value {
		q := in.gobQueue(a[0].(*Ptr))
		if len(*q) == 0 {
			ioPkg := in.P.ssa.ImportedPackage("io")
			eof := in.loadCell(in.global(ioPkg.Var("EOF")))
			return eof
		}
		v := (*q)[0].(*IfaceV)
		*q = (*q)[1:]
		dst := a[1].(*IfaceV)
		pt, ok := dst.t.Underlying().(*types.Pointer)
		if !ok || !types.Identical(pt.Elem(), v.t) {
			errPkg := in.P.ssa.ImportedPackage("errors")
			et := errPkg.Type("errorString").Type()
			cell := in.alloc(et, "gob.Decode")
			in.storeCell(cell.kids[0], "gob: type mismatch", in.tb.True())
			return &IfaceV{t: types.NewPointer(et), v: in.ptrTo(cell)}
		}
		// gob does not transmit struct fields that hold their zero value, and Decode leaves the fields it did not
		// receive as they are in the destination: a destination that is reused across Decode calls keeps stale
		// fields. Modelled for scalar fields (one level; nested structs field-wise).
		nv := v.v
		if sv, ok := nv.(*StructV); ok {
			if cur, ok2 := in.load(dst.v.(*Ptr)).(*StructV); ok2 && len(cur.f) == len(sv.f) {
				nv = in.gobMergeStruct(sv, cur)
			}
		}
		in.store(dst.v.(*Ptr), nv)
		return &IfaceV{}
	}
	// ---- iter.Pull ----
	stdIntrinsics["iter.Pull"] = iterPull
	// ---- slog (default logger is replaced by NoopLogger in harnesses; keep a no-op fallback) ----
	stdIntrinsics["log/slog.Default"] = func(in *Interp, c *frame, fn *ssa.Function, a []Value) Value {
		in.stubHit("slog.Default")
		return in.nilPtr()
	}
	stdIntrinsics["(*log/slog.Logger).Error"] = func(in *Interp, c *frame, fn *ssa.Function, a []Value) Value { return nil }
	stdIntrinsics["(*log/slog.Logger).Warn"] = stdIntrinsics["(*log/slog.Logger).Error"]
	stdIntrinsics["(*log/slog.Logger).ErrorContext"] = stdIntrinsics["(*log/slog.Logger).Error"]
	stdIntrinsics["(*log/slog.Logger).WarnContext"] = stdIntrinsics["(*log/slog.Logger).Error"]
	stdIntrinsics["log/slog.Any"] = func(in *Interp, c *frame, fn *ssa.Function, a []Value) Value {
		return in.zero(fn.Signature.Results().At(0).Type())
	}

	registerRT()
}

// ---------- atomics ----------

func (in *Interp) atomicCell(p *Ptr) *Cell {
	c := in.concretePtr(in.nonNil(p, "atomic"), "atomic")
	c.atomicUsed = true
	return c
}

func (in *Interp) atomicLoad(p *Ptr) Value {
	c := in.atomicCell(p)
	in.visible("atomic.load")
	in.traceOp("atomic.load")
	in.hbAcquire(&c.atomicVC)
	v := c.v
	in.noteAtomicLoad(c)
	return v
}

func (in *Interp) atomicStore(p *Ptr, v Value) {
	c := in.atomicCell(p)
	in.visible("atomic.store")
	in.traceOp("atomic.store")
	in.hbRelease(&c.atomicVC)
	c.v = v
	in.noteAtomicWrite(c)
	in.noteProgress()
}

func (in *Interp) atomicSwap(p *Ptr, v Value) Value {
	c := in.atomicCell(p)
	in.visible("atomic.swap")
	in.traceOp("atomic.swap")
	in.hbAcquire(&c.atomicVC)
	in.hbRelease(&c.atomicVC)
	old := c.v
	c.v = v
	in.noteAtomicWrite(c)
	in.noteProgress()
	return old
}

func (in *Interp) atomicCAS(p *Ptr, old, nw Value) Value {
	c := in.atomicCell(p)
	in.visible("atomic.cas")
	in.traceOp("atomic.cas")
	in.hbAcquire(&c.atomicVC)
	eq := in.valueEq(c.v, old)
	if in.branch(eq, "cas") {
		in.hbRelease(&c.atomicVC)
		c.v = nw
		in.noteAtomicWrite(c)
		in.noteProgress()
		return in.tb.True()
	}
	return in.tb.False()
}

func (in *Interp) atomicRMW(p *Ptr, f func(*Term) *Term, retNew bool) Value {
	c := in.atomicCell(p)
	in.visible("atomic.rmw")
	in.traceOp("atomic.rmw")
	in.hbAcquire(&c.atomicVC)
	in.hbRelease(&c.atomicVC)
	old := c.v.(*Term)
	nw := f(old)
	c.v = nw
	in.noteAtomicWrite(c)
	in.noteProgress()
	if retNew {
		return nw
	}
	return old
}

func (in *Interp) noteProgress() {
	for _, t := range in.threads {
		t.yields = 0
	}
}

func (in *Interp) wgOf(p *Ptr) *wgState {
	c := in.concretePtr(in.nonNil(p, "waitgroup"), "waitgroup")
	w := in.wgs[c]
	if w == nil {
		w = &wgState{}
		in.wgs[c] = w
	}
	return w
}

func (in *Interp) condOf(c *Cell) *condState {
	cs := in.conds[c]
	if cs == nil {
		cs = &condState{}
		in.conds[c] = cs
	}
	return cs
}

func (in *Interp) condLocker(c *Cell) *IfaceV {
	st := c.typ.Underlying().(*types.Struct)
	for i := 0; i < st.NumFields(); i++ {
		if st.Field(i).Name() == "L" {
			return in.loadCell(c.kids[i]).(*IfaceV)
		}
	}
	in.unsupported("sync.Cond without L")
	return nil
}

func (in *Interp) invokeMethod(caller *frame, recv *IfaceV, name string, args ...Value) Value {
	if recv.t == nil {
		in.runtimePanic("method " + name + " on nil interface")
	}
	ms := in.P.ssa.MethodSets.MethodSet(recv.t)
	for i := 0; i < ms.Len(); i++ {
		if ms.At(i).Obj().Name() == name {
			f := in.P.ssa.MethodValue(ms.At(i))
			return in.callSSA(caller, token.NoPos, f, append([]Value{recv.v}, args...), nil)
		}
	}
	in.unsupported("method %s not in method set of %s", name, recv.t)
	return nil
}

func (in *Interp) hasMethod(t types.Type, name string) *ssa.Function {
	ms := in.P.ssa.MethodSets.MethodSet(t)
	for i := 0; i < ms.Len(); i++ {
		if ms.At(i).Obj().Name() == name {
			return in.P.ssa.MethodValue(ms.At(i))
		}
	}
	return nil
}

func (in *Interp) errorsIs(caller *frame, err, target *IfaceV, depth int) bool {
	if depth > 16 {
		in.unsupported("errors.Is depth")
	}
	if err.t == nil || target.t == nil {
		return err.t == nil && target.t == nil
	}
	if types.Comparable(target.t) && types.Identical(err.t, target.t) {
		eq := in.valueEq(err.v, target.v)
		if in.branch(eq, "errors.Is") {
			return true
		}
	}
	if f := in.hasMethod(err.t, "Is"); f != nil && f.Signature.Params().Len() == 1 && f.Signature.Results().Len() == 1 {
		r := in.callSSA(caller, token.NoPos, f, []Value{err.v, target}, nil).(*Term)
		if in.branch(r, "errors.Is.method") {
			return true
		}
	}
	if f := in.hasMethod(err.t, "Unwrap"); f != nil && f.Signature.Results().Len() == 1 {
		r := in.callSSA(caller, token.NoPos, f, []Value{err.v}, nil)
		switch u := r.(type) {
		case *IfaceV:
			if u.t == nil {
				return false
			}
			return in.errorsIs(caller, u, target, depth+1)
		case *SliceV:
			for i := 0; i < u.len; i++ {
				e := in.loadCell(u.arr.kids[u.off+i]).(*IfaceV)
				if e.t != nil && in.errorsIs(caller, e, target, depth+1) {
					return true
				}
			}
		}
	}
	return false
}

func (in *Interp) errorsAs(caller *frame, err, target *IfaceV, depth int) bool {
	if depth > 16 {
		in.unsupported("errors.As depth")
	}
	if target.t == nil {
		in.runtimePanic("errors: target cannot be nil")
	}
	pt, ok := target.t.Underlying().(*types.Pointer)
	if !ok {
		in.runtimePanic("errors: target must be a non-nil pointer")
	}
	if err.t == nil {
		return false
	}
	want := pt.Elem()
	match := false
	if it, isI := want.Underlying().(*types.Interface); isI {
		match = types.Implements(err.t, it)
	} else {
		match = types.Identical(err.t, want)
	}
	if match {
		if _, isI := want.Underlying().(*types.Interface); isI {
			in.store(target.v.(*Ptr), err)
		} else {
			in.store(target.v.(*Ptr), err.v)
		}
		return true
	}
	if f := in.hasMethod(err.t, "As"); f != nil && f.Signature.Params().Len() == 1 {
		r := in.callSSA(caller, token.NoPos, f, []Value{err.v, target}, nil).(*Term)
		if in.branch(r, "errors.As.method") {
			return true
		}
	}
	if f := in.hasMethod(err.t, "Unwrap"); f != nil && f.Signature.Results().Len() == 1 {
		r := in.callSSA(caller, token.NoPos, f, []Value{err.v}, nil)
		switch u := r.(type) {
		case *IfaceV:
			if u.t == nil {
				return false
			}
			return in.errorsAs(caller, u, target, depth+1)
		case *SliceV:
			for i := 0; i < u.len; i++ {
				e := in.loadCell(u.arr.kids[u.off+i]).(*IfaceV)
				if e.t != nil && in.errorsAs(caller, e, target, depth+1) {
					return true
				}
			}
		}
	}
	return false
}

// ---------- hash stub ----------

func keyName(v Value) string {
	switch x := v.(type) {
	case *Term:
		if x.IsConst() {
			return fmt.Sprintf("k%d", x.c)
		}
		return fmt.Sprintf("s%d", x.id)
	case string:
		return "str_" + x
	case *StructV:
		var parts []string
		for _, f := range x.f {
			parts = append(parts, keyName(f))
		}
		return strings.Join(parts, "_")
	}
	return fmt.Sprintf("%T", v)
}

// hashStub: maphash.Comparable(seed, key). Mode 0: a fixed concrete mixing function of (seed,key);
// mode 1: a fresh 64-bit symbol per (seed,key), memoised.
func (in *Interp) hashStub(seed *Term, key Value) Value {
	// a hash is a function of (seed, key): a symbolic key is first concretised (forking over its feasible
	// values) so that equal keys always get equal hashes
	if kt, ok := key.(*Term); ok && !kt.IsConst() {
		key = in.tb.Const(kt.w, in.run.concretise(in, kt, "hash-key"))
	}
	name := fmt.Sprintf("hash_s%d_%s", seed.c, keyName(key))
	if t, ok := in.hashMemo[name]; ok {
		return t
	}
	var t *Term
	kt, isTerm := key.(*Term)
	if in.run.hashMode == 0 && isTerm && kt.IsConst() {
		x := kt.c*0x9E3779B97F4A7C15 + seed.c*0xD6E8FEB86659FD93
		x ^= x >> 32
		x *= 0xD6E8FEB86659FD93
		x ^= x >> 29
		t = in.tb.Const(64, x)
	} else {
		t = in.nondet(name, 64, "hash")
	}
	in.hashMemo[name] = t
	return t
}

// ---------- gob ----------

// gobMergeStruct: field-wise, the decoded value where the encoded field is non-zero, the destination's current
// value where it is zero (gob omits zero-valued fields).
func (in *Interp) gobMergeStruct(enc, cur *StructV) *StructV {
	out := &StructV{f: make([]Value, len(enc.f))}
	for i := range enc.f {
		switch e := enc.f[i].(type) {
		case *Term:
			c, ok := cur.f[i].(*Term)
			if !ok || c.w != e.w {
				out.f[i] = e
				continue
			}
			if e.IsBool() {
				out.f[i] = in.tb.Ite(e, e, c) // false is the zero value
				continue
			}
			out.f[i] = in.tb.Ite(in.tb.Eq(e, in.tb.Const(e.w, 0)), c, e)
		case *StructV:
			if c, ok := cur.f[i].(*StructV); ok && len(c.f) == len(e.f) {
				out.f[i] = in.gobMergeStruct(e, c)
			} else {
				out.f[i] = e
			}
		default:
			out.f[i] = e
		}
	}
	return out
}

func (in *Interp) gobHandle(fn *ssa.Function, w *IfaceV) Value {
	// the Encoder/Decoder object: a fresh cell of the result's element type whose identity maps to the stream queue
	rt := fn.Signature.Results().At(0).Type()
	cell := &Cell{typ: types.Typ[types.Int], obj: in.newObj("gob"), v: in.tb.Const(64, 0)}
	_ = rt
	var key *Cell
	if p, ok := w.v.(*Ptr); ok {
		key = in.concretePtr(p, "gob-stream")
	}
	if key == nil {
		in.unsupported("gob stream must be a pointer-typed io.Reader/io.Writer")
	}
	q := in.gobQueues[key]
	if q == nil {
		q = &[]Value{}
		in.gobQueues[key] = q
	}
	in.gobQueues[cell] = q
	return in.ptrTo(cell)
}

func (in *Interp) gobQueue(p *Ptr) *[]Value {
	c := in.concretePtr(p, "gob")
	q := in.gobQueues[c]
	if q == nil {
		in.unsupported("gob handle without stream")
	}
	return q
}

// ---------- iter.Pull (coroutine on an engine thread; strict alternation, not a scheduling point) ----------

func iterPull(in *Interp, caller *frame, fn *ssa.Function, args []Value) Value {
	in.stubHit("iter.Pull")
	seq := args[0]
	// element type(s) from the yield signature
	seqSig := fn.Signature.Params().At(0).Type().Underlying().(*types.Signature)
	yieldSig := seqSig.Params().At(0).Type().Underlying().(*types.Signature)
	nvals := yieldSig.Params().Len()
	type st struct {
		co       *Thread
		consumer *Thread
		vals     []Value
		has      bool
		stopped  bool
		finished bool
	}
	s := &st{}
	zeroVals := func() TupleV {
		r := TupleV{}
		for i := 0; i < nvals; i++ {
			r = append(r, in.zero(yieldSig.Params().At(i).Type()))
		}
		return append(r, in.tb.False())
	}
	yield := &FuncV{name: "pull.yield", native: func(in *Interp, a []Value) Value {
		if s.stopped {
			return in.tb.False()
		}
		s.vals = a
		s.has = true
		me := in.cur
		s.consumer.vc.join(me.vc)
		in.resume(s.consumer)
		in.waitBaton(me)
		me.vc.join(s.consumer.vc)
		return in.tb.Bool(!s.stopped)
	}}
	body := &FuncV{name: "pull.body", native: func(in *Interp, _ []Value) Value {
		in.call(nil, token.NoPos, seq, []Value{yield})
		s.finished = true
		return nil
	}}
	run := func() {
		me := in.cur
		s.consumer = me
		if s.co == nil {
			s.co = in.newThread("iter.Pull", body, nil)
			s.co.pull = true
			s.co.nsr = -1
			in.nsrNext--
			s.co.resumeTo = nil
		}
		s.co.pullConsumer = me
		s.co.vc.join(me.vc)
		in.resume(s.co)
		in.waitBaton(me)
		me.vc.join(s.co.vc)
	}
	next := &FuncV{name: "pull.next", native: func(in *Interp, _ []Value) Value {
		if s.finished || s.stopped {
			return zeroVals()
		}
		s.has = false
		run()
		if s.has {
			r := TupleV{}
			r = append(r, s.vals...)
			return append(r, in.tb.True())
		}
		return zeroVals()
	}}
	stop := &FuncV{name: "pull.stop", native: func(in *Interp, _ []Value) Value {
		if s.stopped || s.finished {
			s.stopped = true
			return nil
		}
		s.stopped = true
		if s.co != nil && s.co.started {
			run()
		} else {
			s.finished = true
		}
		return nil
	}}
	return TupleV{next, stop}
}

// ---------- harness runtime ("zz_verif_rt.go") ----------

func (in *Interp) nondet(name string, w int, kind string) *Term {
	if rv := in.run.replayVals; rv != nil {
		i := in.nondetN
		in.nondetN++
		if i < len(rv) {
			return in.tb.Const(w, rv[i].Val)
		}
		return in.tb.Const(w, 0)
	}
	in.nondetN++
	vn := fmt.Sprintf("n%d_%s", in.nondetN, sanitize(name))
	t := in.tb.Var(vn, w)
	in.run.nondets = append(in.run.nondets, nondetRec{name: name, term: t, kind: kind})
	return t
}

func sanitize(s string) string {
	var sb strings.Builder
	for _, r := range s {
		if (r >= 'a' && r <= 'z') || (r >= 'A' && r <= 'Z') || (r >= '0' && r <= '9') || r == '_' {
			sb.WriteRune(r)
		} else {
			sb.WriteRune('_')
		}
	}
	return sb.String()
}

func registerRT() {
	nd := func(w int) intrinsic {
		return func(in *Interp, c *frame, fn *ssa.Function, a []Value) Value {
			return in.nondet(a[0].(string), w, "input")
		}
	}
	rtIntrinsics["vU64"] = nd(64)
	rtIntrinsics["vI64"] = nd(64)
	rtIntrinsics["vInt"] = nd(64)
	rtIntrinsics["vU32"] = nd(32)
	rtIntrinsics["vU16"] = nd(16)
	rtIntrinsics["vU8"] = nd(8)
	rtIntrinsics["vBool"] = func(in *Interp, c *frame, fn *ssa.Function, a []Value) Value {
		t := in.nondet(a[0].(string), 8, "input")
		return in.tb.Not(in.tb.Eq(t, in.tb.Const(8, 0)))
	}
	// vChoice(name, n): a concrete value in [0,n), by forking
	rtIntrinsics["vChoice"] = func(in *Interp, c *frame, fn *ssa.Function, a []Value) Value {
		n := int(cu64(in, a[1]))
		t := in.nondet(a[0].(string), 64, "choice")
		conds := make([]*Term, n)
		for i := range conds {
			conds[i] = in.tb.Eq(t, in.tb.Const(64, uint64(i)))
		}
		k := in.run.choose(in, conds, "choice:"+a[0].(string))
		return in.tb.Const(64, uint64(k))
	}
	rtIntrinsics["vAssume"] = func(in *Interp, c *frame, fn *ssa.Function, a []Value) Value {
		in.run.assume(in, a[0].(*Term), in.posOf(c))
		return nil
	}
	rtIntrinsics["vAssert"] = func(in *Interp, c *frame, fn *ssa.Function, a []Value) Value {
		in.run.assert(in, a[0].(*Term), a[1].(string), in.posOf(c))
		return nil
	}
	rtIntrinsics["vReach"] = func(in *Interp, c *frame, fn *ssa.Function, a []Value) Value {
		in.run.reach(a[0].(string))
		return nil
	}
	rtIntrinsics["vPar"] = func(in *Interp, c *frame, fn *ssa.Function, a []Value) Value {
		s := a[0].(*SliceV)
		var fns []Value
		for i := 0; i < s.len; i++ {
			fns = append(fns, in.loadCell(s.arr.kids[s.off+i]))
		}
		in.runPar(fns)
		return nil
	}
	rtIntrinsics["vRunGoroutines"] = func(in *Interp, c *frame, fn *ssa.Function, a []Value) Value {
		in.runParked()
		return nil
	}
	// vAtomic(f): runs f without scheduling points (a ghost observer taking an atomic snapshot)
	rtIntrinsics["vAtomic"] = func(in *Interp, c *frame, fn *ssa.Function, a []Value) Value {
		in.traceOp("vAtomic")
		saved, savedRace := in.par, in.raceOn
		in.par, in.raceOn = false, false
		defer func() { in.par, in.raceOn = saved, savedRace }()
		in.call(c, token.NoPos, a[0], nil)
		return nil
	}
	rtIntrinsics["vTrace"] = func(in *Interp, c *frame, fn *ssa.Function, a []Value) Value {
		t := a[1].(*Term)
		if !t.IsConst() {
			in.unsupported("vTrace of a symbolic value (%s)", a[0].(string))
		}
		in.run.trace = append(in.run.trace, fmt.Sprintf("%s=%d", a[0].(string), t.c))
		return nil
	}
	// vDaemons(): goroutines spawned so far (and still parked) are background daemons: never scheduled, never waited for
	rtIntrinsics["vDaemons"] = func(in *Interp, c *frame, fn *ssa.Function, a []Value) Value {
		for _, t := range in.threads {
			if t.parked {
				t.daemon = true
			}
		}
		return nil
	}
	rtIntrinsics["vYield"] = func(in *Interp, c *frame, fn *ssa.Function, a []Value) Value {
		in.visible("vYield")
		in.traceOp("vYield")
		return nil
	}
	rtIntrinsics["vLog"] = func(in *Interp, c *frame, fn *ssa.Function, a []Value) Value {
		if in.run.job.Verbose {
			s := a[1].(*SliceV)
			var parts []string
			for i := 0; i < s.len; i++ {
				parts = append(parts, fmtValue(in.loadCell(s.arr.kids[s.off+i])))
			}
			in.hostLog = append(in.hostLog, a[0].(string)+" "+strings.Join(parts, " "))
		}
		return nil
	}
	rtIntrinsics["vHashMode"] = func(in *Interp, c *frame, fn *ssa.Function, a []Value) Value {
		in.run.hashMode = int(cu64(in, a[0]))
		return nil
	}
	rtIntrinsics["vParam"] = func(in *Interp, c *frame, fn *ssa.Function, a []Value) Value {
		name := a[0].(string)
		v, ok := in.run.job.Params[name]
		if !ok {
			in.unsupported("missing job parameter %q", name)
		}
		return in.tb.Const(64, uint64(int64(v)))
	}
	rtIntrinsics["vSymbolic"] = func(in *Interp, c *frame, fn *ssa.Function, a []Value) Value {
		return in.tb.True()
	}
	// vConcrete(x): fork over the feasible values of x (bounded) and return a concrete value
	rtIntrinsics["vConcrete"] = func(in *Interp, c *frame, fn *ssa.Function, a []Value) Value {
		t := a[0].(*Term)
		if t.IsConst() {
			return t
		}
		return in.tb.Const(t.w, in.run.concretise(in, t, "vConcrete"))
	}
	rtIntrinsics["vScenario"] = func(in *Interp, c *frame, fn *ssa.Function, a []Value) Value {
		in.run.scenario = a[0].(string)
		return nil
	}
	rtIntrinsics["vExpectPanic"] = func(in *Interp, c *frame, fn *ssa.Function, a []Value) Value {
		// vExpectPanic(f) bool: runs f, returns whether it panicked (Go-level), swallowing the panic
		panicked := false
		func() {
			defer func() {
				if r := recover(); r != nil {
					if _, ok := r.(targetPanic); ok {
						panicked = true
						in.cur.top = c
						return
					}
					panic(r)
				}
			}()
			in.call(c, token.NoPos, a[0], nil)
		}()
		in.run.dropLastPanicNote()
		return in.tb.Bool(panicked)
	}
}

func sortedKeys(m map[string]int) []string {
	var ks []string
	for k := range m {
		ks = append(ks, k)
	}
	sort.Strings(ks)
	return ks
}

var _ = bits.Len
