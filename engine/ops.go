package main

import (
	"fmt"
	"go/token"
	"go/types"
	"math"

	"golang.org/x/tools/go/ssa"
)

func (in *Interp) unop(fr *frame, ins *ssa.UnOp, x Value) Value {
	switch ins.Op {
	case token.MUL: // load
		return in.load(x.(*Ptr))
	case token.NOT:
		return in.tb.Not(x.(*Term))
	case token.SUB:
		switch v := x.(type) {
		case *Term:
			return in.tb.Neg(v)
		case float64:
			return -v
		}
	case token.XOR:
		return in.tb.BNot(x.(*Term))
	case token.ARROW:
		v, ok := in.chanRecv(x.(*ChanV))
		if ins.CommaOk {
			return TupleV{v, in.tb.Bool(ok)}
		}
		return v
	}
	in.unsupported("unop %s on %T", ins.Op, x)
	return nil
}

func (in *Interp) binop(op token.Token, t types.Type, x, y Value) Value {
	tb := in.tb
	switch xv := x.(type) {
	case *Term:
		yv := y.(*Term)
		if xv.w == 0 { // bools
			switch op {
			case token.EQL:
				return tb.Eq(xv, yv)
			case token.NEQ:
				return tb.Not(tb.Eq(xv, yv))
			case token.AND, token.LAND:
				return tb.And(xv, yv)
			case token.OR, token.LOR:
				return tb.Or(xv, yv)
			}
			in.unsupported("bool binop %s", op)
		}
		signed := isSigned(t)
		switch op {
		case token.ADD:
			return tb.Add(xv, yv)
		case token.SUB:
			return tb.Sub(xv, yv)
		case token.MUL:
			return tb.Mul(xv, yv)
		case token.QUO, token.REM:
			zero := tb.Eq(yv, tb.Const(yv.w, 0))
			if in.branch(zero, "divzero") {
				in.runtimePanic("integer divide by zero")
			}
			if op == token.QUO {
				if signed {
					return tb.SDiv(xv, yv)
				}
				return tb.UDiv(xv, yv)
			}
			if signed {
				return tb.SRem(xv, yv)
			}
			return tb.URem(xv, yv)
		case token.AND:
			return tb.BAnd(xv, yv)
		case token.OR:
			return tb.BOr(xv, yv)
		case token.XOR:
			return tb.BXor(xv, yv)
		case token.AND_NOT:
			return tb.BAnd(xv, tb.BNot(yv))
		case token.SHL, token.SHR:
			return in.shift(op, signed, xv, yv)
		case token.EQL:
			return tb.Eq(xv, yv)
		case token.NEQ:
			return tb.Not(tb.Eq(xv, yv))
		case token.LSS:
			if signed {
				return tb.SLt(xv, yv)
			}
			return tb.ULt(xv, yv)
		case token.LEQ:
			if signed {
				return tb.SLe(xv, yv)
			}
			return tb.ULe(xv, yv)
		case token.GTR:
			if signed {
				return tb.SLt(yv, xv)
			}
			return tb.ULt(yv, xv)
		case token.GEQ:
			if signed {
				return tb.SLe(yv, xv)
			}
			return tb.ULe(yv, xv)
		}
	case float64:
		yv := y.(float64)
		switch op {
		case token.ADD:
			return in.fround(t, xv+yv)
		case token.SUB:
			return in.fround(t, xv-yv)
		case token.MUL:
			return in.fround(t, xv*yv)
		case token.QUO:
			return in.fround(t, xv/yv)
		case token.EQL:
			return tb.Bool(xv == yv)
		case token.NEQ:
			return tb.Bool(xv != yv)
		case token.LSS:
			return tb.Bool(xv < yv)
		case token.LEQ:
			return tb.Bool(xv <= yv)
		case token.GTR:
			return tb.Bool(xv > yv)
		case token.GEQ:
			return tb.Bool(xv >= yv)
		}
	case string:
		yv := y.(string)
		switch op {
		case token.ADD:
			return xv + yv
		case token.EQL:
			return tb.Bool(xv == yv)
		case token.NEQ:
			return tb.Bool(xv != yv)
		case token.LSS:
			return tb.Bool(xv < yv)
		case token.LEQ:
			return tb.Bool(xv <= yv)
		case token.GTR:
			return tb.Bool(xv > yv)
		case token.GEQ:
			return tb.Bool(xv >= yv)
		}
	default:
		switch op {
		case token.EQL:
			return in.valueEq(x, y)
		case token.NEQ:
			return tb.Not(in.valueEq(x, y))
		}
	}
	in.unsupported("binop %s on %T,%T", op, x, y)
	return nil
}

func (in *Interp) fround(t types.Type, f float64) float64 {
	if b, ok := t.Underlying().(*types.Basic); ok && b.Kind() == types.Float32 {
		return float64(float32(f))
	}
	return f
}

func (in *Interp) shift(op token.Token, signed bool, x, cnt *Term) *Term {
	tb := in.tb
	w := x.w
	// Go: shift count is unsigned (or non-negative); count >= w gives 0 / sign fill
	var c *Term
	var big *Term = tb.False()
	switch {
	case cnt.w == w:
		c = cnt
	case cnt.w < w:
		c = tb.ZExt(cnt, w)
	default:
		big = tb.Not(tb.ULt(cnt, tb.Const(cnt.w, uint64(w))))
		c = tb.Extract(cnt, w-1, 0)
	}
	var r *Term
	switch {
	case op == token.SHL:
		r = tb.Shl(x, c)
		if !big.IsFalse() {
			r = tb.Ite(big, tb.Const(w, 0), r)
		}
	case signed:
		r = tb.AShr(x, c)
		if !big.IsFalse() {
			r = tb.Ite(big, tb.AShr(x, tb.Const(w, uint64(w-1))), r)
		}
	default:
		r = tb.LShr(x, c)
		if !big.IsFalse() {
			r = tb.Ite(big, tb.Const(w, 0), r)
		}
	}
	return r
}

func (in *Interp) convert(dst, src types.Type, x Value) Value {
	tb := in.tb
	du, su := dst.Underlying(), src.Underlying()
	switch xv := x.(type) {
	case *Term:
		if db, ok := du.(*types.Basic); ok {
			switch {
			case db.Info()&types.IsInteger != 0:
				if xv.w == 0 {
					in.unsupported("convert bool to int")
				}
				w := widthOf(db)
				if isSigned(src) {
					return tb.SExt(xv, w)
				}
				return tb.ZExt(xv, w)
			case db.Info()&types.IsFloat != 0:
				if !xv.IsConst() {
					in.unsupported("symbolic integer to float conversion")
				}
				if isSigned(src) {
					return in.fround(dst, float64(sext64(xv.c, xv.w)))
				}
				return in.fround(dst, float64(xv.c))
			case db.Info()&types.IsString != 0:
				if !xv.IsConst() {
					in.unsupported("symbolic rune to string")
				}
				return string(rune(sext64(xv.c, xv.w)))
			case db.Kind() == types.UnsafePointer:
				in.unsupported("uintptr to unsafe.Pointer")
			}
		}
	case float64:
		if db, ok := du.(*types.Basic); ok {
			switch {
			case db.Info()&types.IsFloat != 0:
				return in.fround(dst, xv)
			case db.Info()&types.IsInteger != 0:
				w := widthOf(db)
				if db.Info()&types.IsUnsigned != 0 {
					if xv < 0 || xv >= math.Exp2(64) {
						return tb.Const(w, uint64(int64(xv)))
					}
					return tb.Const(w, uint64(xv))
				}
				return tb.Const(w, uint64(int64(xv)))
			}
		}
	case string:
		switch d := du.(type) {
		case *types.Basic:
			if d.Info()&types.IsString != 0 {
				return xv
			}
		case *types.Slice:
			eb := d.Elem().Underlying().(*types.Basic)
			if eb.Kind() == types.Uint8 {
				arr := in.allocArray(d.Elem(), len(xv), "string->bytes")
				for i := 0; i < len(xv); i++ {
					arr.kids[i].v = tb.Const(8, uint64(xv[i]))
				}
				return &SliceV{arr: arr, len: len(xv), cap: len(xv)}
			}
			if eb.Kind() == types.Int32 {
				rs := []rune(xv)
				arr := in.allocArray(d.Elem(), len(rs), "string->runes")
				for i := range rs {
					arr.kids[i].v = tb.Const(32, uint64(rs[i]))
				}
				return &SliceV{arr: arr, len: len(rs), cap: len(rs)}
			}
		}
	case *SliceV:
		if db, ok := du.(*types.Basic); ok && db.Info()&types.IsString != 0 {
			eb := su.(*types.Slice).Elem().Underlying().(*types.Basic)
			if eb.Kind() == types.Uint8 {
				bs := make([]byte, xv.len)
				for i := range bs {
					t := in.loadCell(xv.arr.kids[xv.off+i]).(*Term)
					if !t.IsConst() {
						in.unsupported("symbolic bytes to string")
					}
					bs[i] = byte(t.c)
				}
				return string(bs)
			}
		}
		if _, ok := du.(*types.Slice); ok {
			return xv
		}
	case *Ptr:
		switch d := du.(type) {
		case *types.Pointer:
			return xv
		case *types.Basic:
			if d.Kind() == types.UnsafePointer {
				return xv
			}
			if d.Kind() == types.Uintptr {
				// pointer identity as an integer: only nil-ness / equality are meaningful.
				if c, ok := xv.single(); ok {
					if c == nil {
						return tb.Const(64, 0)
					}
					return tb.Const(64, uint64(0x10000+c.obj.id*4096))
				}
				in.unsupported("multi-target pointer to uintptr")
			}
		}
	}
	in.unsupported("convert %s -> %s (%T)", src, dst, x)
	return nil
}

// ---------- builtins ----------

func (in *Interp) callBuiltin(caller *frame, bi *ssa.Builtin, args []Value, pos token.Pos) Value {
	tb := in.tb
	switch bi.Name() {
	case "append":
		s := args[0].(*SliceV)
		if len(args) == 1 {
			return s
		}
		switch add := args[1].(type) {
		case *SliceV:
			return in.appendSlice(s, add, bi)
		case string:
			tmp := in.convert(types.NewSlice(types.Typ[types.Uint8]), types.Typ[types.String], add).(*SliceV)
			return in.appendSlice(s, tmp, bi)
		}
		in.unsupported("append %T", args[1])
	case "copy":
		dst := args[0].(*SliceV)
		var src *SliceV
		switch a := args[1].(type) {
		case *SliceV:
			src = a
		case string:
			src = in.convert(types.NewSlice(types.Typ[types.Uint8]), types.Typ[types.String], a).(*SliceV)
		}
		n := min(dst.len, src.len)
		// handle overlap: read all first
		tmp := make([]Value, n)
		for i := 0; i < n; i++ {
			tmp[i] = in.loadCell(src.arr.kids[src.off+i])
		}
		for i := 0; i < n; i++ {
			in.storeCell(dst.arr.kids[dst.off+i], tmp[i], tb.True())
		}
		return tb.Const(64, uint64(n))
	case "len":
		switch x := args[0].(type) {
		case string:
			return tb.Const(64, uint64(len(x)))
		case *SliceV:
			return tb.Const(64, uint64(x.len))
		case *MapV:
			if x.m == nil {
				return tb.Const(64, 0)
			}
			return tb.Const(64, uint64(len(x.m.entries)))
		case *ChanV:
			if x.c == nil {
				return tb.Const(64, 0)
			}
			return tb.Const(64, uint64(len(x.c.buf)))
		case *ArrayV:
			return tb.Const(64, uint64(len(x.e)))
		case *Ptr:
			c := in.concretePtr(x, "len")
			if c == nil {
				in.unsupported("len of nil array pointer")
			}
			return tb.Const(64, uint64(len(c.kids)))
		}
	case "cap":
		switch x := args[0].(type) {
		case *SliceV:
			return tb.Const(64, uint64(x.cap))
		case *ChanV:
			if x.c == nil {
				return tb.Const(64, 0)
			}
			return tb.Const(64, uint64(x.c.cap))
		case *ArrayV:
			return tb.Const(64, uint64(len(x.e)))
		}
	case "delete":
		in.mapDelete(args[0].(*MapV), args[1])
		return nil
	case "clear":
		switch x := args[0].(type) {
		case *MapV:
			if x.m != nil {
				x.m.entries = nil
			}
			return nil
		case *SliceV:
			for i := 0; i < x.len; i++ {
				c := x.arr.kids[x.off+i]
				in.storeCell(c, in.zero(c.typ), tb.True())
			}
			return nil
		}
	case "min", "max":
		r := args[0]
		for _, a := range args[1:] {
			r = in.minmax(bi.Name() == "min", r, a, bi, caller)
		}
		return r
	case "panic":
		in.run.notePanic(in, "panic: "+fmtValue(args[0]))
		panic(targetPanic{v: args[0]})
	case "recover":
		return in.doRecover(caller)
	case "print", "println":
		return nil
	case "close":
		in.chanClose(args[0].(*ChanV))
		return nil
	case "ssa:wrapnilchk":
		p := args[0].(*Ptr)
		in.nonNil(p, "value method called using nil pointer")
		return p
	case "ssa:deferstack":
		return &deferStack{fr: caller}
	}
	in.unsupported("builtin %s(%T...)", bi.Name(), args[0])
	return nil
}

func (in *Interp) minmax(isMin bool, a, b Value, bi *ssa.Builtin, caller *frame) Value {
	switch x := a.(type) {
	case *Term:
		y := b.(*Term)
		// signedness from the builtin's signature
		sig := bi.Type().(*types.Signature)
		signed := isSigned(sig.Params().At(0).Type())
		var lt *Term
		if signed {
			lt = in.tb.SLt(x, y)
		} else {
			lt = in.tb.ULt(x, y)
		}
		if isMin {
			return in.tb.Ite(lt, x, y)
		}
		return in.tb.Ite(lt, y, x)
	case float64:
		y := b.(float64)
		if isMin {
			return math.Min(x, y)
		}
		return math.Max(x, y)
	case string:
		y := b.(string)
		if (x < y) == isMin {
			return x
		}
		return y
	}
	in.unsupported("min/max on %T", a)
	return nil
}

func (in *Interp) appendSlice(s, add *SliceV, bi *ssa.Builtin) *SliceV {
	if add.len == 0 {
		return s
	}
	n := s.len + add.len
	vals := make([]Value, add.len)
	for i := range vals {
		vals[i] = in.loadCell(add.arr.kids[add.off+i])
	}
	if n <= s.cap && s.arr != nil {
		for i, v := range vals {
			in.storeCell(s.arr.kids[s.off+s.len+i], v, in.tb.True())
		}
		return &SliceV{arr: s.arr, off: s.off, len: n, cap: s.cap}
	}
	ncap := max(2*s.cap, n)
	var et types.Type
	if s.arr != nil {
		et = s.arr.typ.Underlying().(*types.Array).Elem()
	} else {
		et = add.arr.typ.Underlying().(*types.Array).Elem()
		if sig, ok := bi.Type().(*types.Signature); ok {
			if st, ok := sig.Params().At(0).Type().Underlying().(*types.Slice); ok {
				et = st.Elem()
			}
		}
	}
	arr := in.allocArray(et, ncap, "append")
	arr.obj.escaped = true
	for i := 0; i < s.len; i++ {
		in.storeCell(arr.kids[i], in.loadCell(s.arr.kids[s.off+i]), in.tb.True())
	}
	for i, v := range vals {
		in.storeCell(arr.kids[s.len+i], v, in.tb.True())
	}
	return &SliceV{arr: arr, off: 0, len: n, cap: ncap}
}

// ---------- channels (buffered; blocking ops are scheduling points) ----------

func (in *Interp) chanSend(ch *ChanV, v Value) {
	if ch.c == nil {
		in.blockForever("send on nil channel")
	}
	in.visible("chan.send")
	for {
		if ch.c.closed {
			in.runtimePanic("send on closed channel")
		}
		if len(ch.c.buf) < ch.c.cap {
			ch.c.buf = append(ch.c.buf, v)
			in.hbRelease(&ch.c.vc)
			in.wakeWaiters(ch.c)
			return
		}
		if ch.c.cap == 0 {
			// rendezvous: modelled as a one-slot hand-off that a receiver must take
			ch.c.buf = append(ch.c.buf, v)
			in.hbRelease(&ch.c.vc)
			in.wakeWaiters(ch.c)
			in.blockOn(ch.c, func() bool { return len(ch.c.buf) == 0 }, "chan.send.rendezvous")
			return
		}
		in.blockOn(ch.c, func() bool { return len(ch.c.buf) < ch.c.cap || ch.c.closed }, "chan.send")
	}
}

func (in *Interp) chanRecv(ch *ChanV) (Value, bool) {
	if ch.c == nil {
		in.blockForever("receive from nil channel")
	}
	in.visible("chan.recv")
	for {
		if len(ch.c.buf) > 0 {
			v := ch.c.buf[0]
			ch.c.buf = ch.c.buf[1:]
			in.hbAcquire(&ch.c.vc)
			in.wakeWaiters(ch.c)
			return v, true
		}
		if ch.c.closed {
			in.hbAcquire(&ch.c.vc)
			return in.zero(ch.c.et), false
		}
		in.blockOn(ch.c, func() bool { return len(ch.c.buf) > 0 || ch.c.closed }, "chan.recv")
	}
}

func (in *Interp) chanClose(ch *ChanV) {
	if ch.c == nil {
		in.runtimePanic("close of nil channel")
	}
	if ch.c.closed {
		in.runtimePanic("close of closed channel")
	}
	in.visible("chan.close")
	ch.c.closed = true
	in.hbRelease(&ch.c.vc)
	in.wakeWaiters(ch.c)
}

func (in *Interp) selectOp(fr *frame, ins *ssa.Select) Value {
	in.visible("select")
	type st struct {
		ch   *ChanV
		send Value
		dir  types.ChanDir
	}
	states := make([]st, len(ins.States))
	for i, s := range ins.States {
		states[i] = st{ch: fr.get(s.Chan).(*ChanV), dir: s.Dir}
		if s.Send != nil {
			states[i].send = fr.get(s.Send)
		}
	}
	ready := func() int {
		for i, s := range states {
			if s.ch.c == nil {
				continue
			}
			if s.dir == types.RecvOnly {
				if len(s.ch.c.buf) > 0 || s.ch.c.closed {
					return i
				}
			} else if len(s.ch.c.buf) < s.ch.c.cap || s.ch.c.closed {
				return i
			}
		}
		return -1
	}
	chosen := ready()
	for chosen < 0 && ins.Blocking {
		var chans []interface{}
		for _, s := range states {
			if s.ch.c != nil {
				chans = append(chans, s.ch.c)
			}
		}
		in.blockOnAny(chans, func() bool { return ready() >= 0 }, "select")
		chosen = ready()
	}
	r := TupleV{in.tb.Const(64, uint64(int64(chosen))), in.tb.False()}
	var recvd Value
	recvOK := false
	if chosen >= 0 {
		s := states[chosen]
		if s.dir == types.RecvOnly {
			recvd, recvOK = in.chanRecvNoYield(s.ch)
		} else {
			if s.ch.c.closed {
				in.runtimePanic("send on closed channel")
			}
			s.ch.c.buf = append(s.ch.c.buf, s.send)
			in.hbRelease(&s.ch.c.vc)
			in.wakeWaiters(s.ch.c)
		}
	}
	r[1] = in.tb.Bool(recvOK)
	for i, s := range ins.States {
		if s.Dir == types.RecvOnly {
			if i == chosen && recvOK {
				r = append(r, recvd)
			} else {
				r = append(r, in.zero(s.Chan.Type().Underlying().(*types.Chan).Elem()))
			}
		}
	}
	return r
}

func (in *Interp) chanRecvNoYield(ch *ChanV) (Value, bool) {
	if len(ch.c.buf) > 0 {
		v := ch.c.buf[0]
		ch.c.buf = ch.c.buf[1:]
		in.hbAcquire(&ch.c.vc)
		in.wakeWaiters(ch.c)
		return v, true
	}
	in.hbAcquire(&ch.c.vc)
	return in.zero(ch.c.et), false
}

var _ = fmt.Sprintf
