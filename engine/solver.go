package main

// One long-lived SMT solver process per worker ("z3 -in" style), fed SMT-LIB2 text.
// No set-logic, no push/pop: path constraints are asserted, probes use check-sat-assuming.

import (
	"bufio"
	"fmt"
	"io"
	"os"
	"os/exec"
	"strconv"
	"strings"
	"time"
)

var slowQueryDir = os.Getenv("VERIF_SLOWQ")
var slowN int

type Solver struct {
	bin     string
	args    []string
	cmd     *exec.Cmd
	in      io.WriteCloser
	out     *bufio.Reader
	emitted map[int]bool
	script  []string // declarations, definitions, assertions since last reset
	pending strings.Builder

	timeoutMs int
	shortMs   int
	lastAssump      []*Term
	lastFallbackSat bool
	FallbackHits    int
	Queries   int
	Unknowns  int
	Errors    int
	Time      time.Duration
}

func NewSolver(bin string, args []string, timeoutMs int) (*Solver, error) {
	s := &Solver{bin: bin, args: args, timeoutMs: timeoutMs, shortMs: 1500}
	if err := s.start(); err != nil {
		return nil, err
	}
	return s, nil
}

func (s *Solver) start() error {
	s.cmd = exec.Command(s.bin, s.args...)
	in, err := s.cmd.StdinPipe()
	if err != nil {
		return err
	}
	out, err := s.cmd.StdoutPipe()
	if err != nil {
		return err
	}
	s.cmd.Stderr = nil
	if err := s.cmd.Start(); err != nil {
		return err
	}
	s.in = in
	s.out = bufio.NewReaderSize(out, 1<<16)
	s.emitted = map[int]bool{}
	s.script = s.script[:0]
	s.pending.Reset()
	s.header()
	return nil
}

func (s *Solver) header() {
	fmt.Fprintf(&s.pending, "(set-option :timeout %d)\n", s.timeoutMs)
}

func (s *Solver) Close() {
	if s.cmd != nil {
		s.in.Close()
		s.cmd.Process.Kill()
		s.cmd.Wait()
		s.cmd = nil
	}
}

// Reset clears all assertions and definitions (new run).
func (s *Solver) Reset() {
	s.emitted = map[int]bool{}
	s.script = s.script[:0]
	s.pending.Reset()
	s.pending.WriteString("(reset)\n")
	s.header()
}

func (s *Solver) line(l string) {
	s.script = append(s.script, l)
	s.pending.WriteString(l)
	s.pending.WriteString("\n")
}

func (s *Solver) define(t *Term) {
	if t.op == OpConst || s.emitted[t.id] {
		return
	}
	// iterative post-order to avoid deep recursion
	type fr struct {
		t *Term
		i int
	}
	st := []fr{{t, 0}}
	for len(st) > 0 {
		f := &st[len(st)-1]
		if f.t.op == OpConst || s.emitted[f.t.id] {
			st = st[:len(st)-1]
			continue
		}
		if f.i < len(f.t.args) {
			a := f.t.args[f.i]
			f.i++
			if a.op != OpConst && !s.emitted[a.id] {
				st = append(st, fr{a, 0})
			}
			continue
		}
		tt := f.t
		s.emitted[tt.id] = true
		if tt.op == OpVar {
			s.line(fmt.Sprintf("(declare-const %s %s)", tt.name, sortStr(tt.w)))
		} else {
			s.line(fmt.Sprintf("(define-fun t%d () %s %s)", tt.id, sortStr(tt.w), tt.def()))
		}
		st = st[:len(st)-1]
	}
}

func (s *Solver) Assert(t *Term) {
	if t.IsTrue() {
		return
	}
	s.define(t)
	s.line(fmt.Sprintf("(assert %s)", t.ref()))
}

func (s *Solver) flush() error {
	if s.pending.Len() == 0 {
		return nil
	}
	_, err := io.WriteString(s.in, s.pending.String())
	s.pending.Reset()
	return err
}

func (s *Solver) readLine() (string, error) {
	l, err := s.out.ReadString('\n')
	return strings.TrimSpace(l), err
}

// Check decides satisfiability of the asserted constraints plus the assumptions.
// Returns "sat", "unsat" or "unknown" (which includes errors and timeouts).
func (s *Solver) Check(assump ...*Term) string {
	s.lastAssump = assump
	s.lastFallbackSat = false
	r := s.checkZ3(s.shortMs, assump)
	if r != "unknown" {
		return r
	}
	// portfolio: linear 64-bit arithmetic that stalls bit-blasting is often immediate in the integer encoding
	if r2 := s.cvc5Int(assump); r2 == "sat" || r2 == "unsat" {
		s.FallbackHits++
		s.lastFallbackSat = r2 == "sat"
		return r2
	}
	r = s.checkZ3(s.timeoutMs, assump)
	if r == "unknown" {
		s.Unknowns++
	}
	return r
}

func (s *Solver) cvc5Int(assump []*Term) string {
	var sb strings.Builder
	sb.WriteString("(set-logic ALL)\n")
	for _, l := range s.script {
		sb.WriteString(l)
		sb.WriteString("\n")
	}
	for _, a := range assump {
		fmt.Fprintf(&sb, "(assert %s)\n", a.ref())
	}
	sb.WriteString("(check-sat)\n")
	t0 := time.Now()
	cmd := exec.Command("cvc5", "--solve-bv-as-int=sum", "--tlimit=20000", "--lang=smt2", "-")
	cmd.Stdin = strings.NewReader(sb.String())
	out, _ := cmd.CombinedOutput()
	s.Time += time.Since(t0)
	s.Queries++
	txt := string(out)
	if strings.Contains(txt, "(error") {
		return "unknown"
	}
	for _, l := range strings.Split(txt, "\n") {
		l = strings.TrimSpace(l)
		if l == "sat" || l == "unsat" {
			return l
		}
	}
	return "unknown"
}

func (s *Solver) checkZ3(ms int, assump []*Term) string {
	for _, a := range assump {
		s.define(a)
	}
	var sb strings.Builder
	fmt.Fprintf(&sb, "(set-option :timeout %d)\n", ms)
	sb.WriteString("(check-sat-assuming (")
	for i, a := range assump {
		if i > 0 {
			sb.WriteString(" ")
		}
		sb.WriteString(a.ref())
	}
	sb.WriteString("))\n")
	s.pending.WriteString(sb.String())
	t0 := time.Now()
	s.Queries++
	if err := s.flush(); err != nil {
		s.Errors++
		s.restart()
		return "unknown"
	}
	for {
		l, err := s.readLine()
		if err != nil {
			s.Errors++
			s.restart()
			s.Time += time.Since(t0)
			return "unknown"
		}
		switch {
		case l == "sat" || l == "unsat":
			d := time.Since(t0)
			s.Time += d
			if d > 5*time.Second && slowQueryDir != "" {
				slowN++
				var sb2 strings.Builder
				for _, x := range s.script {
					sb2.WriteString(x + "\n")
				}
				sb2.WriteString(sb.String())
				writeFile(fmt.Sprintf("%s/slow_%d_%d_%s.smt2", slowQueryDir, os.Getpid(), slowN, l), sb2.String())
			}
			return l
		case l == "unknown" || l == "timeout":
			s.Time += time.Since(t0)
			return "unknown"
		case strings.HasPrefix(l, "(error"):
			s.Errors++
			// keep reading: the check-sat answer still follows; but treat as inconclusive
			rest, _ := s.readLineUntilVerdict()
			_ = rest
			s.Time += time.Since(t0)
			return "unknown"
		case l == "":
			continue
		}
	}
}

func (s *Solver) readLineUntilVerdict() (string, error) {
	for {
		l, err := s.readLine()
		if err != nil {
			return "", err
		}
		if l == "sat" || l == "unsat" || l == "unknown" || l == "timeout" {
			return l, nil
		}
	}
}

func (s *Solver) restart() {
	s.Close()
	old := append([]string(nil), s.script...)
	if err := s.start(); err != nil {
		panic(err)
	}
	// replay script so the session is consistent again
	for _, l := range old {
		s.script = append(s.script, l)
		s.pending.WriteString(l)
		s.pending.WriteString("\n")
		if strings.HasPrefix(l, "(define-fun t") {
			idEnd := strings.IndexByte(l[13:], ' ')
			if id, err := strconv.Atoi(l[13 : 13+idEnd]); err == nil {
				s.emitted[id] = true
			}
		}
	}
	// variables: mark as emitted by name is not possible by id; caller resets per run anyway
}

// Model fetches values for the given variables after a "sat" answer.
func (s *Solver) Model(vars []*Term) (map[string]uint64, error) {
	if s.lastFallbackSat {
		if r := s.checkZ3(s.timeoutMs, s.lastAssump); r != "sat" {
			return nil, fmt.Errorf("no model: z3 answered %s after cvc5 answered sat", r)
		}
		s.lastFallbackSat = false
	}
	m := map[string]uint64{}
	var ask []*Term
	for _, v := range vars {
		if s.emitted[v.id] {
			ask = append(ask, v)
		} else {
			m[v.name] = 0
		}
	}
	if len(ask) == 0 {
		return m, nil
	}
	var sb strings.Builder
	sb.WriteString("(get-value (")
	for _, v := range ask {
		sb.WriteString(v.name)
		sb.WriteString(" ")
	}
	sb.WriteString("))\n")
	s.pending.WriteString(sb.String())
	if err := s.flush(); err != nil {
		return nil, err
	}
	// read a balanced s-expression
	var buf strings.Builder
	depth := 0
	started := false
	for {
		r, _, err := s.out.ReadRune()
		if err != nil {
			return nil, err
		}
		if r == '(' {
			depth++
			started = true
		}
		if started {
			buf.WriteRune(r)
		}
		if r == ')' {
			depth--
			if started && depth == 0 {
				break
			}
		}
	}
	txt := buf.String()
	if strings.HasPrefix(txt, "(error") {
		return nil, fmt.Errorf("solver: %s", txt)
	}
	// parse pairs (name value)
	toks := tokenize(txt)
	for i := 0; i+1 < len(toks); i++ {
		if toks[i] == "(" && i+3 < len(toks) && toks[i+3] == ")" && toks[i+1] != "(" {
			name, val := toks[i+1], toks[i+2]
			m[name] = parseSMTVal(val)
		}
	}
	return m, nil
}

func tokenize(s string) []string {
	var out []string
	cur := strings.Builder{}
	fl := func() {
		if cur.Len() > 0 {
			out = append(out, cur.String())
			cur.Reset()
		}
	}
	for _, r := range s {
		switch r {
		case '(', ')':
			fl()
			out = append(out, string(r))
		case ' ', '\n', '\t', '\r':
			fl()
		default:
			cur.WriteRune(r)
		}
	}
	fl()
	return out
}

func parseSMTVal(v string) uint64 {
	switch {
	case v == "true":
		return 1
	case v == "false":
		return 0
	case strings.HasPrefix(v, "#x"):
		u, _ := strconv.ParseUint(v[2:], 16, 64)
		return u
	case strings.HasPrefix(v, "#b"):
		u, _ := strconv.ParseUint(v[2:], 2, 64)
		return u
	}
	return 0
}

// Standalone renders the current constraint set plus one extra assertion as a self-contained script
// (used for the solver cross-check).
func (s *Solver) Standalone(extra *Term) string {
	s.define(extra)
	var sb strings.Builder
	sb.WriteString("(set-logic ALL)\n")
	for _, l := range s.script {
		sb.WriteString(l)
		sb.WriteString("\n")
	}
	fmt.Fprintf(&sb, "(assert %s)\n(check-sat)\n", extra.ref())
	return sb.String()
}

// ValueOf returns the value of term t in the model of the last (sat) check.
func (s *Solver) ValueOf(t *Term, _ []*Term) (uint64, error) {
	if t.IsConst() {
		return t.c, nil
	}
	if s.lastFallbackSat {
		if r := s.checkZ3(s.timeoutMs, s.lastAssump); r != "sat" {
			return 0, fmt.Errorf("no model: z3 answered %s after cvc5 answered sat", r)
		}
		s.lastFallbackSat = false
	}
	s.define(t)
	// a definition emitted after the check invalidates nothing in z3, but to be safe re-check is the caller's job
	fmt.Fprintf(&s.pending, "(get-value (%s))\n", t.ref())
	if err := s.flush(); err != nil {
		return 0, err
	}
	var buf strings.Builder
	depth := 0
	started := false
	for {
		r, _, err := s.out.ReadRune()
		if err != nil {
			return 0, err
		}
		if r == '(' {
			depth++
			started = true
		}
		if started {
			buf.WriteRune(r)
		}
		if r == ')' {
			depth--
			if started && depth == 0 {
				break
			}
		}
	}
	txt := buf.String()
	if strings.HasPrefix(txt, "(error") {
		return 0, fmt.Errorf("solver: %s", txt)
	}
	toks := tokenize(txt)
	// ((ref value))
	if len(toks) >= 5 {
		return parseSMTVal(toks[len(toks)-3]), nil
	}
	return 0, fmt.Errorf("solver: cannot parse %q", txt)
}
