package main

// SMT back end: per worker, a portfolio of long-lived solver processes fed SMT-LIB2 text.
//   cvc5-int:    cvc5 1.0 --incremental --solve-bv-as-int=sum — decides the linear 64-bit arithmetic of
//                deadlines/indices quickly where bit-blasting needs tens of seconds;
//   z3-bitblast: z3 5.1.0 default — decides the bit-twiddling queries (sketch, SWAR);
//   then one-shot z3 4.8.12, then both incremental processes again with the long timeout.
// z3 5.1.0's integer-blasting mode (smt.bv.solver=2) was tried and REMOVED: in incremental use it answered
// "unsat" on satisfiable queries (found through differing path counts, confirmed by four other solver
// configurations); see DESIGN.md.
// No set-logic for z3, no push/pop: path constraints are asserted, probes use check-sat-assuming.
// Any "(error" line, "unknown" or timeout is inconclusive, never success.

import (
	"bufio"
	"fmt"
	"io"
	"os"
	"os/exec"
	"strconv"
	"strings"
	"time"
)

var slowQueryDir = os.Getenv("VERIF_SLOWQ")
var slowN int
var traceSolver = os.Getenv("VERIF_TRACE_SOLVER")

type proc struct {
	bin       string
	args      []string
	tmoOpt    string   // name of the per-query timeout option
	opts      []string // lines sent after every reset
	cmd       *exec.Cmd
	in        io.WriteCloser
	out       *bufio.Reader
	sent      int
	needReset bool
	dead      bool
	name      string
}

func (p *proc) start() error {
	args := p.args
	if args == nil {
		args = []string{"-in"}
	}
	p.cmd = exec.Command(p.bin, args...)
	in, err := p.cmd.StdinPipe()
	if err != nil {
		return err
	}
	out, err := p.cmd.StdoutPipe()
	if err != nil {
		return err
	}
	if err := p.cmd.Start(); err != nil {
		return err
	}
	p.in = in
	p.out = bufio.NewReaderSize(out, 1<<16)
	p.sent = 0
	p.needReset = true
	p.dead = false
	return nil
}

func (p *proc) close() {
	if p.cmd != nil {
		p.in.Close()
		p.cmd.Process.Kill()
		p.cmd.Wait()
		p.cmd = nil
	}
}

type Solver struct {
	procs   []*proc
	emitted map[int]bool
	script  []string // declarations, definitions, assertions since last reset

	timeoutMs    int
	shortMs      int
	lastAssump   []*Term
	last         *proc // process holding the model of the last "sat"
	FallbackHits int
	Queries      int
	Unknowns     int
	Errors       int
	Time         time.Duration
	ByProc       map[string]int
	runs         int
	noOneShot    bool
	LastBackend  string
}

// NewSolver starts the portfolio. prefer = "int" (cvc5 integer encoding first) or "bits" (z3 bit-blasting first).
func NewSolver(bin string, prefer string, timeoutMs int) (*Solver, error) {
	bitp := &proc{bin: bin, name: "z3-bitblast"}
	cvcp := &proc{bin: "cvc5", name: "cvc5-int", tmoOpt: ":tlimit-per", opts: []string{"(set-logic ALL)"},
		args: []string{"--incremental", "--produce-models", "--solve-bv-as-int=sum", "--lang=smt2"}}
	s := &Solver{timeoutMs: timeoutMs, shortMs: 1000, emitted: map[int]bool{}, ByProc: map[string]int{}}
	if prefer == "bits" {
		s.procs = []*proc{bitp, cvcp}
	} else {
		s.procs = []*proc{cvcp, bitp}
	}
	if err := s.procs[0].start(); err != nil {
		return nil, err
	}
	return s, nil
}

func (s *Solver) Close() {
	for _, p := range s.procs {
		p.close()
	}
}

// Reset clears all assertions and definitions (new run). z3 processes grow across resets, so each is
// restarted after a number of runs.
func (s *Solver) Reset() {
	s.runs++
	if s.runs%400 == 0 {
		for _, p := range s.procs {
			p.close()
		}
	}
	s.emitted = map[int]bool{}
	s.script = s.script[:0]
	s.last = nil
	for _, p := range s.procs {
		p.needReset = true
		p.sent = 0
	}
}

func (s *Solver) line(l string) {
	s.script = append(s.script, l)
}

func (s *Solver) define(t *Term) {
	if t.op == OpConst || s.emitted[t.id] {
		return
	}
	type fr struct {
		t *Term
		i int
	}
	st := []fr{{t, 0}}
	for len(st) > 0 {
		f := &st[len(st)-1]
		if f.t.op == OpConst || s.emitted[f.t.id] {
			st = st[:len(st)-1]
			continue
		}
		if f.i < len(f.t.args) {
			a := f.t.args[f.i]
			f.i++
			if a.op != OpConst && !s.emitted[a.id] {
				st = append(st, fr{a, 0})
			}
			continue
		}
		tt := f.t
		s.emitted[tt.id] = true
		if tt.op == OpVar {
			s.line(fmt.Sprintf("(declare-const %s %s)", tt.name, sortStr(tt.w)))
		} else {
			s.line(fmt.Sprintf("(define-fun t%d () %s %s)", tt.id, sortStr(tt.w), tt.def()))
		}
		st = st[:len(st)-1]
	}
}

func (s *Solver) Assert(t *Term) {
	if t.IsTrue() {
		return
	}
	s.define(t)
	s.line(fmt.Sprintf("(assert %s)", t.ref()))
}

func (p *proc) readLine() (string, error) {
	l, err := p.out.ReadString('\n')
	return strings.TrimSpace(l), err
}

// checkOn brings the process up to date with the script and decides the assumptions.
func (s *Solver) checkOn(p *proc, ms int, assump []*Term) string {
	if p.cmd == nil || p.dead {
		p.close()
		if err := p.start(); err != nil {
			s.Errors++
			return "unknown"
		}
	}
	var sb strings.Builder
	if p.needReset {
		sb.WriteString("(reset)\n")
		for _, o := range p.opts {
			sb.WriteString(o)
			sb.WriteString("\n")
		}
		p.needReset = false
		p.sent = 0
	}
	for _, l := range s.script[p.sent:] {
		sb.WriteString(l)
		sb.WriteString("\n")
	}
	p.sent = len(s.script)
	tmo := p.tmoOpt
	if tmo == "" {
		tmo = ":timeout"
	}
	fmt.Fprintf(&sb, "(set-option %s %d)\n", tmo, ms)
	if len(assump) == 0 {
		sb.WriteString("(check-sat)\n")
	} else {
		sb.WriteString("(check-sat-assuming (")
		for i, a := range assump {
			if i > 0 {
				sb.WriteString(" ")
			}
			sb.WriteString(a.ref())
		}
		sb.WriteString("))\n")
	}
	if traceSolver != "" {
		f, _ := os.OpenFile(traceSolver+"."+p.name, os.O_APPEND|os.O_CREATE|os.O_WRONLY, 0o644)
		f.WriteString(sb.String())
		f.Close()
	}
	t0 := time.Now()
	s.Queries++
	s.ByProc[p.name]++
	s.LastBackend = fmt.Sprintf("%s/%dms", p.name, ms)
	defer func() { s.Time += time.Since(t0) }()
	if _, err := io.WriteString(p.in, sb.String()); err != nil {
		s.Errors++
		p.dead = true
		return "unknown"
	}
	sawErr := false
	for {
		l, err := p.readLine()
		if err != nil {
			s.Errors++
			p.dead = true
			return "unknown"
		}
		switch {
		case l == "sat" || l == "unsat":
			if sawErr {
				return "unknown"
			}
			if d := time.Since(t0); d > 5*time.Second && slowQueryDir != "" {
				slowN++
				writeFile(fmt.Sprintf("%s/slow_%d_%d_%s_%s.smt2", slowQueryDir, os.Getpid(), slowN, p.name, l), strings.Join(s.script, "\n")+"\n"+sb.String())
			}
			return l
		case l == "unknown" || l == "timeout":
			return "unknown"
		case strings.HasPrefix(l, "(error"):
			s.Errors++
			sawErr = true
		}
	}
}

// Check decides satisfiability of the asserted constraints plus the assumptions.
// Returns "sat", "unsat" or "unknown".
func (s *Solver) Check(assump ...*Term) string {
	for _, a := range assump {
		s.define(a)
	}
	s.lastAssump = assump
	s.last = nil
	// 1. preferred back end, short timeout; 2. the other one; 3. one-shot z3 4.8.12; 4. both, long timeout
	if r := s.checkOn(s.procs[0], s.shortMs, assump); r != "unknown" {
		if r == "sat" {
			s.last = s.procs[0]
		}
		return r
	}
	if r := s.checkOn(s.procs[1], 2000, assump); r != "unknown" {
		if r == "sat" {
			s.last = s.procs[1]
		}
		return r
	}
	if r := s.oneShot("z3", []string{"-in", "-T:15"}, "z3-4.8.12-oneshot", assump); r == "sat" || r == "unsat" {
		s.FallbackHits++
		return r
	}
	for _, p := range s.procs {
		if r := s.checkOn(p, s.timeoutMs, assump); r != "unknown" {
			if r == "sat" {
				s.last = p
			}
			return r
		}
	}
	s.Unknowns++
	return "unknown"
}

func (s *Solver) oneShot(bin string, args []string, name string, assump []*Term) string {
	var sb strings.Builder
	for _, l := range s.script {
		sb.WriteString(l)
		sb.WriteString("\n")
	}
	for _, a := range assump {
		fmt.Fprintf(&sb, "(assert %s)\n", a.ref())
	}
	sb.WriteString("(check-sat)\n")
	t0 := time.Now()
	cmd := exec.Command(bin, args...)
	cmd.Stdin = strings.NewReader(sb.String())
	out, _ := cmd.CombinedOutput()
	s.Time += time.Since(t0)
	s.Queries++
	s.ByProc[name]++
	s.LastBackend = name
	txt := string(out)
	if strings.Contains(txt, "(error") {
		return "unknown"
	}
	for _, l := range strings.Split(txt, "\n") {
		l = strings.TrimSpace(l)
		if l == "sat" || l == "unsat" {
			return l
		}
	}
	return "unknown"
}

func (s *Solver) cvc5Int(assump []*Term) string {
	var sb strings.Builder
	sb.WriteString("(set-logic ALL)\n")
	for _, l := range s.script {
		sb.WriteString(l)
		sb.WriteString("\n")
	}
	for _, a := range assump {
		fmt.Fprintf(&sb, "(assert %s)\n", a.ref())
	}
	sb.WriteString("(check-sat)\n")
	t0 := time.Now()
	cmd := exec.Command("cvc5", "--solve-bv-as-int=sum", "--tlimit=10000", "--lang=smt2", "-")
	cmd.Stdin = strings.NewReader(sb.String())
	out, _ := cmd.CombinedOutput()
	s.Time += time.Since(t0)
	s.Queries++
	s.ByProc["cvc5-int"]++
	s.LastBackend = "cvc5-int-oneshot"
	txt := string(out)
	if strings.Contains(txt, "(error") {
		return "unknown"
	}
	for _, l := range strings.Split(txt, "\n") {
		l = strings.TrimSpace(l)
		if l == "sat" || l == "unsat" {
			return l
		}
	}
	return "unknown"
}

// modelProc makes sure some process holds a model for the last sat answer.
func (s *Solver) modelProc() (*proc, error) {
	if s.last != nil {
		return s.last, nil
	}
	for _, p := range s.procs {
		if r := s.checkOn(p, s.timeoutMs, s.lastAssump); r == "sat" {
			s.last = p
			return p, nil
		}
	}
	return nil, fmt.Errorf("no model: no z3 configuration confirmed the sat answer")
}

func readSexp(p *proc) (string, error) {
	var buf strings.Builder
	depth := 0
	started := false
	for {
		r, _, err := p.out.ReadRune()
		if err != nil {
			return "", err
		}
		if r == '(' {
			depth++
			started = true
		}
		if started {
			buf.WriteRune(r)
		}
		if r == ')' {
			depth--
			if started && depth == 0 {
				return buf.String(), nil
			}
		}
	}
}

// Model fetches values for the given variables after a "sat" answer.
func (s *Solver) Model(vars []*Term) (map[string]uint64, error) {
	p, err := s.modelProc()
	if err != nil {
		return nil, err
	}
	m := map[string]uint64{}
	var ask []*Term
	for _, v := range vars {
		if s.emitted[v.id] {
			ask = append(ask, v)
		} else {
			m[v.name] = 0
		}
	}
	if len(ask) == 0 {
		return m, nil
	}
	var sb strings.Builder
	sb.WriteString("(get-value (")
	for _, v := range ask {
		sb.WriteString(v.name)
		sb.WriteString(" ")
	}
	sb.WriteString("))\n")
	if _, err := io.WriteString(p.in, sb.String()); err != nil {
		p.dead = true
		return nil, err
	}
	txt, err := readSexp(p)
	if err != nil {
		p.dead = true
		return nil, err
	}
	if strings.HasPrefix(txt, "(error") {
		return nil, fmt.Errorf("solver: %s", txt)
	}
	toks := tokenize(txt)
	for i := 0; i+1 < len(toks); i++ {
		if toks[i] == "(" && i+3 < len(toks) && toks[i+3] == ")" && toks[i+1] != "(" {
			m[toks[i+1]] = parseSMTVal(toks[i+2])
		}
	}
	return m, nil
}

// ValueOf returns the value of term t in the model of the last (sat) check; t must have been defined
// before that check.
func (s *Solver) ValueOf(t *Term, _ []*Term) (uint64, error) {
	if t.IsConst() {
		return t.c, nil
	}
	p, err := s.modelProc()
	if err != nil {
		return 0, err
	}
	if _, err := io.WriteString(p.in, fmt.Sprintf("(get-value (%s))\n", t.ref())); err != nil {
		p.dead = true
		return 0, err
	}
	txt, err := readSexp(p)
	if err != nil {
		p.dead = true
		return 0, err
	}
	if strings.HasPrefix(txt, "(error") {
		return 0, fmt.Errorf("solver: %s", txt)
	}
	toks := tokenize(txt)
	if len(toks) >= 5 {
		return parseSMTVal(toks[len(toks)-3]), nil
	}
	return 0, fmt.Errorf("solver: cannot parse %q", txt)
}

func tokenize(s string) []string {
	var out []string
	cur := strings.Builder{}
	fl := func() {
		if cur.Len() > 0 {
			out = append(out, cur.String())
			cur.Reset()
		}
	}
	for _, r := range s {
		switch r {
		case '(', ')':
			fl()
			out = append(out, string(r))
		case ' ', '\n', '\t', '\r':
			fl()
		default:
			cur.WriteRune(r)
		}
	}
	fl()
	return out
}

func parseSMTVal(v string) uint64 {
	switch {
	case v == "true":
		return 1
	case v == "false":
		return 0
	case strings.HasPrefix(v, "#x"):
		u, _ := strconv.ParseUint(v[2:], 16, 64)
		return u
	case strings.HasPrefix(v, "#b"):
		u, _ := strconv.ParseUint(v[2:], 2, 64)
		return u
	}
	return 0
}

// Standalone renders the current constraint set plus one extra assertion as a self-contained script
// (used for the solver cross-check).
func (s *Solver) Standalone(extra *Term) string {
	s.define(extra)
	var sb strings.Builder
	sb.WriteString("(set-logic ALL)\n")
	for _, l := range s.script {
		sb.WriteString(l)
		sb.WriteString("\n")
	}
	fmt.Fprintf(&sb, "(assert %s)\n(check-sat)\n", extra.ref())
	return sb.String()
}
