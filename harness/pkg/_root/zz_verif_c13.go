package otter

// C13, cache level: writes with TTLs from nanoseconds to years, deadline extensions by reads, monotone clock
// jumps spanning all five wheel levels; after every CleanUp at T every entry whose deadline lies more than one
// tick (2^30 ns) before T is physically gone (not counted by EstimatedSize) and its Expiration event was delivered.
// TTLs and jumps are chosen by vChoice from fixed lists (the engine forks over all combinations); the symbolic
// arithmetic of the wheel itself is decided per level in internal/expiration (ZZ_C13_Placement/Sweep).

import "time"

func init() {
	vRegister("ZZ_C13_Cache", ZZ_C13_Cache)
}

type zzPerKeyExpiry struct{ d [zzNK + 1]time.Duration }

func (c *zzPerKeyExpiry) ExpireAfterCreate(e Entry[int, int]) time.Duration { return c.d[e.Key] }
func (c *zzPerKeyExpiry) ExpireAfterUpdate(e Entry[int, int], old int) time.Duration {
	return c.d[e.Key]
}
func (c *zzPerKeyExpiry) ExpireAfterRead(e Entry[int, int]) time.Duration {
	if c.d[0] != 0 {
		return c.d[e.Key] // reads extend the deadline
	}
	return e.ExpiresAfter()
}

func ZZ_C13_Cache() {
	ttls := []time.Duration{1, time.Second, 2 * time.Minute, 3 * time.Hour, 48 * time.Hour, 240 * time.Hour, 20000 * time.Hour}
	jumps := []int64{1 << 29, 3 << 30, int64(2 * time.Minute), int64(26 * time.Hour), int64(30 * 24 * time.Hour), int64(3 * 365 * 24 * time.Hour)}
	if vParam("jumpset") == 1 {
		// clock jumps of exactly one full turn of a wheel level (64, 64, 32, 4 ticks of 2^30, 2^36, 2^42, 2^47 ns), one
		// tick more and one tick less
		jumps = []int64{1 << 36, 1 << 42, 1 << 47, 1 << 49, 1<<36 + 1<<30, 1<<36 - 1<<30, 1<<42 + 1<<36}
	}
	calc := &zzPerKeyExpiry{}
	if vParam("readsextend") == 1 {
		calc.d[0] = 1
	}
	clk := &zzClock{now: 1 << 40}
	ev := &zzEvents{}
	c := Must(&Options[int, int]{
		Clock:            clk,
		Executor:         func(fn func()) { fn() },
		Logger:           &NoopLogger{},
		ExpiryCalculator: calc,
		OnAtomicDeletion: func(e DeletionEvent[int, int]) {
			ev.atomic = append(ev.atomic, zzEvent{key: e.Key, val: e.Value, cause: e.Cause})
		},
	})
	var exp [zzNK + 1]int64
	var live [zzNK + 1]bool
	nkeys := vParam("nkeys")
	for k := 1; k <= nkeys; k++ {
		calc.d[k] = ttls[vChoice("ttl", len(ttls))]
		c.Set(k, 100+k)
		exp[k] = clk.now + int64(calc.d[k])
		live[k] = true
	}
	steps := vParam("steps")
	tick := int64(1) << 30
	for i := 0; i < steps; i++ {
		clk.now += jumps[vChoice("jump", len(jumps))]
		if vParam("readsextend") == 1 && vChoice("read", 2) == 1 {
			if _, ok := c.GetIfPresent(1); ok {
				exp[1] = clk.now + int64(calc.d[1])
			}
		}
		c.CleanUp()
		T := clk.now
		size := c.EstimatedSize()
		expectMax := 0
		for k := 1; k <= nkeys; k++ {
			if !live[k] {
				continue
			}
			if exp[k]+tick < T {
				// must have been swept and reported
				found := false
				for _, e := range ev.atomic {
					if e.key == k && e.cause == CauseExpiration {
						found = true
					}
				}
				vAssert(found, "c13.cache.expiration_event_delivered_within_one_tick")
				live[k] = false
			} else {
				expectMax++
			}
		}
		vAssert(size <= expectMax, "c13.cache.swept_entries_not_counted")
		for _, e := range ev.atomic {
			vAssert(e.cause == CauseExpiration && exp[e.key] <= T, "c13.cache.only_expired_entries_reported")
		}
	}
	if vParam("canary") == 1 {
		vAssert(len(ev.atomic) == 0, "c13.cache.canary")
	}
}

func init() { vRegister("ZZ_C13_Race", ZZ_C13_Race) }

// zzYieldClock is a clock whose reading is a scheduling point (a write samples the clock at its start).
type zzYieldClock struct{ now int64 }

func (c *zzYieldClock) NowNano() int64 {
	vYield()
	var t int64
	vAtomic(func() { t = c.now })
	return t
}
func (c *zzYieldClock) Tick(d time.Duration) <-chan time.Time { return nil }

// ZZ_C13_Race — the schedule named in the property: a write samples the clock, maintenance then runs at a later
// clock value, and only then does the write's event reach the timer wheel (its deadline may already lie behind the
// wheel's time). Afterwards (no operation in flight) CleanUp at T with deadline + one tick < T must have removed
// and reported the entry.
func ZZ_C13_Race() {
	clk := &zzYieldClock{now: 1 << 40}
	var ev []zzEvent
	ttls := []time.Duration{1, time.Second, 90 * time.Second}
	calc := &zzPerKeyExpiry{}
	calc.d[1] = ttls[vChoice("ttl", len(ttls))]
	c := Must(&Options[int, int]{
		Clock:            clk,
		Executor:         func(fn func()) { fn() },
		Logger:           &NoopLogger{},
		ExpiryCalculator: calc,
		OnAtomicDeletion: func(e DeletionEvent[int, int]) {
			vAtomic(func() { ev = append(ev, zzEvent{key: e.Key, val: e.Value, cause: e.Cause}) })
		},
	})
	vDaemons() // periodicCleanUp waits on a ticker the manual clock never fires
	jumps := []int64{3 << 30, int64(5 * time.Minute), int64(3 * time.Hour)}
	jump := jumps[vChoice("jump", len(jumps))]
	writeDone := int64(0)
	vPar(func() {
		c.Set(1, 101)
		vAtomic(func() { writeDone = clk.now })
	}, func() {
		vAtomic(func() { clk.now += jump })
		c.CleanUp()
	})
	// quiescent now. Let more than one tick pass after both the deadline and the write's return, then sweep.
	deadlineUpper := writeDone + int64(calc.d[1]) // the write sampled its clock no later than it returned
	tick := int64(1) << 30
	vAtomic(func() { clk.now += 3 * tick })
	c.CleanUp()
	T := clk.now
	if deadlineUpper+tick < T && writeDone+tick < T {
		found := false
		for _, e := range ev {
			if e.key == 1 && e.cause == CauseExpiration {
				found = true
			}
		}
		vAssert(found, "c13.race.expired_entry_reported_within_one_tick")
		vAssert(c.EstimatedSize() == 0, "c13.race.expired_entry_not_counted")
	}
}
