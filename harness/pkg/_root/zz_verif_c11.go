package otter

// C11 — refresh serves the old value and swaps atomically or not at all.
// Sequential: refresh calculators creating/writing/custom, with and without expiry, sync and deferred
// executors; refreshableAfter and the clock readings around the refresh deadline are 64-bit symbols
// (no size bound and no expiry sweep in the sync case: the refresh path hands tasks to the executor itself).

import (
	"context"
	"errors"
)

func init() {
	vRegister("ZZ_C11_Get", ZZ_C11_Get)
	vRegister("ZZ_C11_Manual", ZZ_C11_Manual)
}

type zzLoader struct {
	loads, reloads int
	sawOld         int
	outcome        int // 0 ok, 1 error, 2 not found
	val            int
}

func (l *zzLoader) Load(ctx context.Context, key int) (int, error) {
	l.loads++
	return l.result()
}

func (l *zzLoader) Reload(ctx context.Context, key int, old int) (int, error) {
	l.reloads++
	l.sawOld = old
	return l.result()
}

func (l *zzLoader) result() (int, error) {
	switch l.outcome {
	case 0:
		return l.val, nil
	case 1:
		return l.val, zzErrLoad
	}
	return 0, ErrNotFound
}

// ZZ_C11_Get: a read of an entry whose refresh time has passed returns the value cached at that moment and
// hands exactly one reload to the executor; fresh entries trigger nothing; success replaces, failure leaves
// value and expiry untouched, not-found removes.
func ZZ_C11_Get() {
	cfg := zzCfgFromParams()
	conc := cfg.expiry != zzExpNone // with expiry the executor queue also holds sweeps: keep the clock concrete
	s := zzNewSeqD(cfg, "c11", conc)
	c := s.env.c
	s.zzStart(conc)
	s.step(zzOpSet, 1, "c11.prefix")
	v0 := s.m[1].val
	exp0 := s.m[1].exp
	s.zzAdvance(conc)
	vAssume(s.present(1)) // still alive; stale or fresh is left to the solver
	stale := s.m[1].ref <= s.now()
	ld := &zzLoader{outcome: vChoice("outcome", 3), val: s.fresh()}
	outc := []string{"ok", "error", "notfound"}
	vScenario("reload=" + outc[ld.outcome])
	handed0 := s.env.ex.handed
	s.lookups++
	s.hitsWant++
	s.modelReadHook(1)
	expAfterRead := s.m[1].exp
	got, err := c.Get(context.Background(), 1, ld)
	vAssert(err == nil && got == v0, "c11.get_returns_value_cached_at_that_moment")
	vAssert(ld.loads == 0, "c11.present_entry_never_calls_load")
	if !stale {
		vAssert(s.env.ex.handed == handed0 && ld.reloads == 0, "c11.fresh_read_triggers_nothing")
		s.syncEvents("c11")
		s.observe("c11.fresh")
		return
	}
	if s.env.cfg.deferred {
		vAssert(s.env.ex.handed == handed0+1, "c11.stale_read_hands_exactly_one_reload_to_executor")
	} else {
		// same-goroutine executor: the reload (and the deletion notification it causes) already ran
		vAssert(s.env.ex.handed >= handed0+1, "c11.stale_read_hands_reload_to_executor")
	}
	if s.env.cfg.deferred {
		// reload pending: readers keep getting the old value
		vAssert(ld.reloads == 0, "c11.deferred_reload_not_run_yet")
		e, ok := c.GetEntryQuietly(1)
		vAssert(ok && e.Value == v0, "c11.pending_reload_serves_old_value")
		s.env.ex.Run()
	}
	vAssert(ld.reloads == 1 && ld.sawOld == v0, "c11.reload_called_once_with_old_value")
	// model the completed reload (clock did not move)
	now := s.now()
	switch ld.outcome {
	case 0:
		old := s.m[1]
		s.expect = append(s.expect, zzEvent{key: 1, val: old.val, cause: CauseReplacement, w: old.w})
		n := zzME{exists: true, val: ld.val, w: s.weight(1, ld.val), exp: zzMaxI64, ref: zzMaxI64}
		if s.withExp() {
			switch s.env.cfg.expiry {
			case zzExpCreating:
				n.exp = expAfterRead
			case zzExpCustom:
				n.exp = zzSat(now, s.dU)
			default:
				n.exp = zzSat(now, s.dC)
			}
		}
		switch s.env.cfg.refresh {
		case zzRefCreating:
			n.ref = old.ref
		case zzRefCustom:
			n.ref = zzSat(now, s.rU) // RefreshAfterReload = rU in the custom calculator of the harness
		default:
			n.ref = zzSat(now, s.rC)
		}
		s.m[1] = n
	case 1:
		// failure: value and expiry untouched; refresh time per RefreshAfterReloadFailure
		if s.env.cfg.refresh == zzRefCustom {
			s.m[1].ref = zzSat(now, s.rU)
		}
	case 2:
		s.modelRemove(1)
	}
	s.loads++
	if ld.outcome != 1 {
		s.loadOK++
	}
	if rx := s.env.cfg.refC; rx != nil {
		// the refresh calculator is told what happened: reload with (new entry, old value), failure with (entry, error)
		switch ld.outcome {
		case 0:
			vAssert(rx.nReload == 1 && rx.nFail == 0 && rx.lastVal == ld.val && rx.lastOld == v0, "c11.calculator.reload_sees_new_entry_and_old_value")
		case 1:
			vAssert(rx.nReload == 0 && rx.nFail == 1 && rx.lastVal == v0 && rx.lastErr == zzErrLoad, "c11.calculator.failure_sees_entry_and_error")
		case 2:
			vAssert(rx.nReload == 0 && rx.nFail == 0, "c11.calculator.not_consulted_for_a_removed_entry")
		}
	}
	s.syncEvents("c11")
	s.observe("c11.after_reload")
	if ld.outcome == 1 {
		e, ok := c.GetEntryQuietly(1)
		vAssert(ok && e.Value == v0, "c11.failed_reload_keeps_value")
		if s.withExp() {
			vAssert(ok && e.ExpiresAtNano == expAfterRead, "c11.failed_reload_keeps_expiry")
		}
		_ = exp0
	}
	if vParam("canary") == 1 {
		vAssert(ld.reloads == 0, "c11.canary")
	}
}

// ZZ_C11_Manual: Refresh returns nil iff refreshing is not configured; otherwise exactly one message per
// call, for every outcome, present or absent key.
func ZZ_C11_Manual() {
	cfg := zzCfgFromParams()
	conc := cfg.expiry != zzExpNone && vParam("forcesym") != 1
	s := zzNewSeqD(cfg, "c11m", conc)
	c := s.env.c
	s.zzStart(conc)
	if vChoice("pre", 2) == 1 {
		s.step(zzOpSet, 1, "c11m.prefix")
	}
	s.zzAdvance(conc)
	pres := s.present(1)
	v0 := s.m[1].val
	ld := &zzLoader{outcome: vChoice("outcome", 3), val: s.fresh()}
	ch := c.Refresh(context.Background(), 1, ld)
	if !s.withRef() {
		vAssert(ch == nil, "c11m.no_channel_without_refresh_calculator")
		vAssert(ld.loads+ld.reloads == 0, "c11m.no_load_without_refresh_calculator")
		return
	}
	vAssert(ch != nil, "c11m.channel_when_configured")
	if s.env.cfg.deferred {
		vAssert(len(ch) == 0, "c11m.no_result_before_executor_runs")
		s.env.ex.Run()
	}
	vAssert(len(ch) == 1, "c11m.exactly_one_result")
	r := <-ch
	vAssert(len(ch) == 0, "c11m.exactly_one_result_after_receive")
	vAssert(r.Key == 1, "c11m.result_key")
	if pres {
		vAssert(ld.reloads == 1 && ld.loads == 0 && ld.sawOld == v0, "c11m.present_uses_reload")
	} else {
		vAssert(ld.loads == 1 && ld.reloads == 0, "c11m.absent_uses_load")
	}
	switch ld.outcome {
	case 0:
		vAssert(r.Err == nil && r.Value == ld.val, "c11m.result_value")
		e, ok := c.GetEntryQuietly(1)
		vAssert(ok && e.Value == ld.val, "c11m.success_installs")
	case 1:
		vAssert(r.Err == zzErrLoad, "c11m.result_error")
		e, ok := c.GetEntryQuietly(1)
		vAssert(ok == pres && (!ok || e.Value == v0), "c11m.failure_leaves_entry")
	case 2:
		vAssert(errors.Is(r.Err, ErrNotFound), "c11m.result_notfound")
		_, ok := c.GetEntryQuietly(1)
		vAssert(!ok, "c11m.notfound_removes")
	}
}

func (s *zzSeq) zzStart(concrete bool) {
	if concrete {
		s.env.clk.now = 1 << 32
	} else {
		s.env.clk.now = zzTime("t0")
	}
}

// zzAdvance: symbolic advance, or (concrete durations: refresh 1 s, read 1.5 s, create 2 s, update 3 s)
// an offset chosen around the refresh and expiry deadlines.
func (s *zzSeq) zzAdvance(concrete bool) {
	if !concrete {
		s.advance()
		return
	}
	offs := []int64{0, 999_999_999, 1_000_000_000, 1_700_000_000, 2_000_000_000, 2_500_000_000}
	s.env.clk.now += offs[vChoice("dt", len(offs))]
}

func init() { vRegister("ZZ_C11_Bulk", ZZ_C11_Bulk) }

// ZZ_C11_Bulk: the bulk variants. Keys 1 and 2 are present, key 3 is absent; the clock advances by a symbolic amount.
// via=0: BulkRefresh([1,2,3]) — exactly one message on the channel with exactly one result per key; via=1:
// BulkGet([1,2]) — stale entries are served with the value cached at that moment and reloaded through the executor,
// fresh entries trigger nothing. The bulk reload's outcome is chosen by the engine: every key supplied, key 2 missing,
// every key missing (empty or nil map, no error), or an error (with a partial or nil map). Afterwards: supplied keys hold
// the reloaded value, keys missing from a successful reload are removed, a failed reload leaves value untouched.
func ZZ_C11_Bulk() {
	cfg := zzCfgFromParams()
	s := zzNewSeq(cfg, "c11b")
	c := s.env.c
	s.env.clk.now = zzTime("t0")
	s.step(zzOpSet, 1, "c11b.prefix")
	s.step(zzOpSet, 2, "c11b.prefix")
	s.advance()
	vAssume(s.present(1) && s.present(2))
	via := vChoice("via", 2)
	mode := vChoice("reload", 6)
	rnames := []string{"full", "partial", "error_partial", "error_nil", "empty_ok", "nil_ok"}
	vias := []string{"BulkRefresh", "BulkGet"}
	vScenario(vias[via] + ";reload=" + rnames[mode])
	stale := [3]bool{false, s.m[1].ref <= s.now(), s.m[2].ref <= s.now()}
	old := [3]int{0, s.m[1].val, s.m[2].val}
	n1, n2, n3 := s.fresh(), s.fresh(), s.fresh()
	bl := &zzBulkLoader{
		load: func(keys []int) (map[int]int, error) { return map[int]int{3: n3}, nil },
		reload: func(keys []int) (map[int]int, error) {
			res := map[int]int{}
			switch mode {
			case 0:
				res[1], res[2] = n1, n2
			case 1, 2:
				res[1] = n1
			case 3:
				return nil, zzErrLoad
			case 4:
				return res, nil
			case 5:
				return nil, nil
			}
			if mode == 2 {
				return res, zzErrLoad
			}
			return res, nil
		},
	}
	failed := mode == 2 || mode == 3
	supplied := [3]bool{false, mode <= 2, mode == 0}
	var reloaded [3]bool // which keys the reload covers
	if via == 0 {
		ch := c.BulkRefresh(context.Background(), []int{1, 2, 3}, bl)
		vAssert(ch != nil, "c11b.channel_when_configured")
		if s.env.cfg.deferred {
			vAssert(len(ch) == 0, "c11b.no_result_before_executor_runs")
			e, ok := c.GetEntryQuietly(1)
			vAssert(ok && e.Value == old[1], "c11b.pending_reload_serves_old_value")
			s.env.ex.Run()
		}
		vAssert(len(ch) == 1, "c11b.exactly_one_message")
		rs := <-ch
		vAssert(len(ch) == 0, "c11b.exactly_one_message_after_receive")
		var seen [4]int
		for _, r := range rs {
			vAssert(r.Key >= 1 && r.Key <= 3, "c11b.result_key_range")
			if r.Key < 1 || r.Key > 3 {
				continue
			}
			seen[r.Key]++
			switch {
			case r.Key == 3:
				vAssert(r.Err == nil && r.Value == n3, "c11b.absent_key_is_loaded")
			case failed:
				vAssert(r.Err == zzErrLoad, "c11b.result_error")
			case supplied[r.Key]:
				want := n1
				if r.Key == 2 {
					want = n2
				}
				vAssert(r.Err == nil && r.Value == want, "c11b.result_value")
			default:
				vAssert(errors.Is(r.Err, ErrNotFound), "c11b.result_notfound")
			}
		}
		vAssert(seen[1] == 1 && seen[2] == 1 && seen[3] == 1 && len(rs) == 3, "c11b.exactly_one_result_per_key")
		vAssert(bl.reloads == 1 && bl.reloadKeys[1] == 1 && bl.reloadKeys[2] == 1 && bl.reloadKeys[3] == 0, "c11b.present_keys_use_one_bulk_reload")
		vAssert(bl.loads == 1 && bl.loadKeys[3] == 1 && bl.loadKeys[1] == 0 && bl.loadKeys[2] == 0, "c11b.absent_key_uses_bulk_load")
		reloaded = [3]bool{false, true, true}
	} else {
		got, err := c.BulkGet(context.Background(), []int{1, 2}, bl)
		vAssert(err == nil && len(got) == 2 && got[1] == old[1] && got[2] == old[2], "c11b.bulkget_returns_values_cached_at_that_moment")
		vAssert(bl.loads == 0, "c11b.present_entries_never_call_bulkload")
		if s.env.cfg.deferred {
			vAssert(bl.reloads == 0, "c11b.deferred_reload_not_run_yet")
			s.env.ex.Run()
		}
		if !stale[1] && !stale[2] {
			vAssert(bl.reloads == 0, "c11b.fresh_reads_trigger_nothing")
		} else {
			vAssert(bl.reloads == 1 && (bl.reloadKeys[1] == 1) == stale[1] && (bl.reloadKeys[2] == 1) == stale[2], "c11b.one_bulk_reload_for_exactly_the_stale_keys")
		}
		reloaded = stale
	}
	for k := 1; k <= 2; k++ {
		e, ok := c.GetEntryQuietly(k)
		want := n1
		if k == 2 {
			want = n2
		}
		switch {
		case !reloaded[k] || failed:
			vAssert(ok && e.Value == old[k], "c11b.failed_or_no_reload_leaves_value")
		case supplied[k]:
			vAssert(ok && e.Value == want, "c11b.successful_reload_replaces")
		default:
			vAssert(!ok, "c11b.notfound_reload_removes")
		}
	}
}
