package otter

// C06 (every removed value reported exactly once with the right cause), C07 (automatic removals only for
// a sanctioned, truthful reason) and C20 (statistics count exactly what happened) reuse the model oracle
// of zz_verif_seq.go: syncEvents/syncPlain/checkStats carry the assertions, prefixed with the property's tag.

func init() {
	vRegister("ZZ_C06_Sync", ZZ_C06_Sync)
	vRegister("ZZ_C06_Sym", ZZ_C06_Sym)
	vRegister("ZZ_C07_Sync", ZZ_C07_Sync)
	vRegister("ZZ_C20_Sync", ZZ_C20_Sync)
	vRegister("ZZ_C20_Sym", ZZ_C20_Sym)
}

// zzPerKeyOrder: for one key the atomic handler sees removals in installation order (values are
// installed as increasing tokens).
func zzPerKeyOrder(s *zzSeq, tag string) {
	var last [zzNK + 1]int
	for _, e := range s.env.ev.atomic {
		if e.key >= 1 && e.key <= zzNK {
			vAssert(e.val > last[e.key], tag+".atomic_order_is_installation_order")
			last[e.key] = e.val
		}
	}
}

// zzConservation: values written = values present + values reported (each exactly once).
func zzConservation(s *zzSeq, tag string) {
	for v := 101; v <= 100+s.nextVal; v++ {
		n := 0
		for _, e := range s.env.ev.atomic {
			if e.val == v {
				n++
			}
		}
		present := 0
		for k := 1; k <= zzNK; k++ {
			if s.m[k].exists && s.m[k].val == v {
				if e, ok := s.env.c.cache.hashmapGetQuiet(k); ok && e == v {
					present++
				}
			}
		}
		vAssert(n <= 1, tag+".value_reported_more_than_once")
		vAssert(n+present <= 1, tag+".value_present_and_reported")
	}
}

func ZZ_C06_Sync() {
	s := zzRunSync("c06", zzCfgFromParams())
	zzPerKeyOrder(s, "c06")
	zzConservation(s, "c06")
	if vParam("canary") == 1 {
		vAssert(len(s.env.ev.atomic) == 0, "c06.canary")
	}
}

func ZZ_C06_Sym() {
	s := zzRunSym("c06", zzCfgFromParams())
	zzPerKeyOrder(s, "c06")
	zzConservation(s, "c06")
	if !s.env.cfg.deferred || s.env.cfg.expiry == zzExpNone {
		// no expiry: running the executor queue involves no sweep. Pending maintenance (write-buffer tasks of the
		// operations above, evictions of oversized or overflowing entries) now runs; then both handlers must agree.
		s.env.ex.Run()
		s.env.c.CleanUp()
		s.env.ex.Run()
		s.syncEvents("c06.drain")
		s.syncPlain("c06.final")
		zzPerKeyOrder(s, "c06")
	}
}

func ZZ_C07_Sync() {
	s := zzRunSync("c07", zzCfgFromParams())
	// a cache without a size bound never reports Overflow; zero-weight entries survive size pressure:
	// both asserted at the moment of each event by syncEvents (c07.event.*)
	if s.env.cfg.bound == 0 {
		vAssert(!s.hadOverflow, "c07.overflow_without_bound")
	}
	if vParam("canary") == 1 {
		vAssert(!s.hadOverflow, "c07.canary")
	}
}

func ZZ_C20_Sync() {
	cfg := zzCfgFromParams()
	cfg.stats = true
	s := zzRunSync("c20", cfg)
	if vParam("canary") == 1 {
		vAssert(s.env.ctr.Snapshot().Misses == 0, "c20.canary")
	}
}

func ZZ_C20_Sym() {
	cfg := zzCfgFromParams()
	cfg.stats = true
	zzRunSym("c20", cfg)
}
