package otter

// C06 (every removed value reported exactly once with the right cause), C07 (automatic removals only for
// a sanctioned, truthful reason) and C20 (statistics count exactly what happened) reuse the model oracle
// of zz_verif_seq.go: syncEvents/syncPlain/checkStats carry the assertions, prefixed with the property's tag.

import "github.com/maypok86/otter/v2/stats"

func init() {
	vRegister("ZZ_C06_Sync", ZZ_C06_Sync)
	vRegister("ZZ_C06_Sym", ZZ_C06_Sym)
	vRegister("ZZ_C07_Sync", ZZ_C07_Sync)
	vRegister("ZZ_C07_Sym", ZZ_C07_Sym)
	vRegister("ZZ_C20_Sync", ZZ_C20_Sync)
	vRegister("ZZ_C20_Sym", ZZ_C20_Sym)
}

// zzPerKeyOrder: for one key the atomic handler sees removals in installation order (values are
// installed as increasing tokens).
func zzPerKeyOrder(s *zzSeq, tag string) {
	var last [zzNK + 1]int
	for _, e := range s.env.ev.atomic {
		if e.key >= 1 && e.key <= zzNK {
			vAssert(e.val > last[e.key], tag+".atomic_order_is_installation_order")
			last[e.key] = e.val
		}
	}
}

// zzConservation: values written = values present + values reported (each exactly once).
func zzConservation(s *zzSeq, tag string) {
	for v := 101; v <= 100+s.nextVal; v++ {
		n := 0
		for _, e := range s.env.ev.atomic {
			if e.val == v {
				n++
			}
		}
		present := 0
		for k := 1; k <= zzNK; k++ {
			if s.m[k].exists && s.m[k].val == v {
				if e, ok := s.env.c.cache.hashmapGetQuiet(k); ok && e == v {
					present++
				}
			}
		}
		vAssert(n <= 1, tag+".value_reported_more_than_once")
		vAssert(n+present <= 1, tag+".value_present_and_reported")
	}
}

func ZZ_C06_Sync() {
	s := zzRunSync("c06", zzCfgFromParams())
	zzPerKeyOrder(s, "c06")
	zzConservation(s, "c06")
	if vParam("canary") == 1 {
		vAssert(len(s.env.ev.atomic) == 0, "c06.canary")
	}
}

func ZZ_C06_Sym() {
	s := zzRunSym("c06", zzCfgFromParams())
	zzPerKeyOrder(s, "c06")
	zzConservation(s, "c06")
	if !s.env.cfg.deferred || s.env.cfg.expiry == zzExpNone {
		// no expiry: running the executor queue involves no sweep. Pending maintenance (write-buffer tasks of the
		// operations above, evictions of oversized or overflowing entries) now runs; then both handlers must agree.
		s.env.ex.Run()
		s.env.c.CleanUp()
		s.env.ex.Run()
		s.syncEvents("c06.drain")
		s.syncPlain("c06.final")
		zzPerKeyOrder(s, "c06")
	}
}

// ZZ_C07_Sym: symbolic clock and durations, queueing executor (no sweep): the Expiration causes that operations meeting
// an expired, unswept node report (and the absence of such reports while the model's exact deadline has not passed).
func ZZ_C07_Sym() {
	s := zzRunSym("c07", zzCfgFromParams())
	if s.env.cfg.bound == 0 {
		vAssert(!s.hadOverflow, "c07.overflow_without_bound")
	}
}

func ZZ_C07_Sync() {
	s := zzRunSync("c07", zzCfgFromParams())
	// a cache without a size bound never reports Overflow; zero-weight entries survive size pressure:
	// both asserted at the moment of each event by syncEvents (c07.event.*)
	if s.env.cfg.bound == 0 {
		vAssert(!s.hadOverflow, "c07.overflow_without_bound")
	}
	if vParam("canary") == 1 {
		vAssert(!s.hadOverflow, "c07.canary")
	}
}

func ZZ_C20_Sync() {
	cfg := zzCfgFromParams()
	cfg.stats = true
	s := zzRunSync("c20", cfg)
	if vParam("canary") == 1 {
		vAssert(s.env.ctr.Snapshot().Misses == 0, "c20.canary")
	}
}

func ZZ_C20_Sym() {
	cfg := zzCfgFromParams()
	cfg.stats = true
	s := zzRunSym("c20", cfg)
	if s.env.cfg.deferred && s.env.cfg.expiry == zzExpNone {
		// several writes were recorded before maintenance ran (weights symbolic: oversized values occur): the pending
		// maintenance runs now; the eviction counters must cover exactly the Overflow removals it reports
		s.env.ex.Run()
		s.env.c.CleanUp()
		s.env.ex.Run()
		s.syncEvents("c20.drain")
		s.checkStats("c20.drain")
	}
}

func init() {
	vRegister("ZZ_C20_Par", ZZ_C20_Par)
	vRegister("ZZ_C06_Par", ZZ_C06_Par)
}

// ZZ_C20_Par: two threads of counting operations on one cache with the real stats.Counter: totals are exact.
func ZZ_C20_Par() {
	ctr := stats.NewCounter()
	c := Must(&Options[int, int]{Logger: &NoopLogger{}, StatsRecorder: ctr})
	c.Set(1, 1)
	ops := func(which int) func() {
		return func() {
			switch which {
			case 0:
				c.GetIfPresent(1) // hit
				c.GetIfPresent(2) // miss
			case 1:
				c.Compute(1, func(o int, f bool) (int, ComputeOp) { return o, CancelOp }) // hit
				c.ComputeIfPresent(3, func(o int) (int, ComputeOp) { return o, CancelOp }) // miss
			case 2:
				c.GetEntry(1)          // hit
				c.GetEntryQuietly(2)   // not counted
				c.SetIfAbsent(1, 5)    // not counted
				c.ComputeIfAbsent(1, func() (int, bool) { return 0, true }) // hit
			}
		}
	}
	a, b := vChoice("opsA", 3), vChoice("opsB", 3)
	vPar(ops(a), ops(b))
	hits := []uint64{1, 1, 2}
	misses := []uint64{1, 1, 0}
	st := ctr.Snapshot()
	vAssert(st.Hits == hits[a]+hits[b], "c20.par.hits_exact")
	vAssert(st.Misses == misses[a]+misses[b], "c20.par.misses_exact")
}

// ZZ_C06_Par: replacement / invalidation racing with the eviction of the same key (maximum 1, default executor):
// after quiescence and CleanUp every value that is no longer current was reported exactly once to each handler,
// values still present never, and per key the atomic handler saw installation order.
func ZZ_C06_Par() {
	var atomicEv, plainEv []zzEvent
	c := Must(&Options[int, int]{
		MaximumSize: vParam("max"),
		Logger:      &NoopLogger{},
		OnAtomicDeletion: func(e DeletionEvent[int, int]) {
			vAtomic(func() { atomicEv = append(atomicEv, zzEvent{key: e.Key, val: e.Value, cause: e.Cause}) })
		},
		OnDeletion: func(e DeletionEvent[int, int]) {
			vAtomic(func() { plainEv = append(plainEv, zzEvent{key: e.Key, val: e.Value, cause: e.Cause}) })
		},
	})
	c.Set(1, 101)
	c.CleanUp()
	opA, opB := vChoice("opA", 3), vChoice("opB", 3)
	names := []string{"SetSameKey", "SetOtherKey", "Invalidate"}
	vScenario(names[opA] + "|" + names[opB])
	written := []int{101}
	run := func(op, base int) func() {
		return func() {
			switch op {
			case 0:
				c.Set(1, base+1)
			case 1:
				c.Set(base, base+2)
			case 2:
				c.Invalidate(1)
			}
		}
	}
	for i, op := range []int{opA, opB} {
		base := 200 * (i + 1)
		switch op {
		case 0:
			written = append(written, base+1)
		case 1:
			written = append(written, base+2)
		}
	}
	vPar(run(opA, 200), run(opB, 400))
	c.CleanUp()
	present := map[int]bool{}
	for _, v := range c.All() {
		present[v] = true
	}
	for _, v := range written {
		na, np := 0, 0
		for _, e := range atomicEv {
			if e.val == v {
				na++
			}
		}
		for _, e := range plainEv {
			if e.val == v {
				np++
			}
		}
		if present[v] {
			vAssert(na == 0 && np == 0, "c06.par.present_value_never_reported")
		} else {
			vAssert(na == 1, "c06.par.removed_value_reported_exactly_once_atomic")
			vAssert(np == 1, "c06.par.removed_value_reported_exactly_once_plain")
		}
	}
	vAssert(len(atomicEv) == len(plainEv), "c06.par.handlers_agree")
}
