package otter

// C04/C05/C07, policy level, inductive: one step of the real W-TinyLFU policy code from an arbitrary policy state
// over N nodes that satisfies the representation invariant RI (each node linked in exactly the deque its queue type
// names; the three weight counters equal their sums), with symbolic uint32 weights and a symbolic sketch.
// After the step: RI again; after evictNodes additionally weightedSize <= maximum and windowWeightedSize <=
// windowMaximum; no zero-weight node is evicted; every eviction happens while the total exceeds the maximum or the
// node alone exceeds it. A counterexample from an unreachable pre-state would mean RI is too weak, not a finding.

import (
	"math"

	"github.com/maypok86/otter/v2/internal/generated/node"
)

func init() { vRegister("ZZ_Policy_Step", ZZ_Policy_Step) }

type zzPol struct {
	p       *policy[int, int]
	nm      *node.Manager[int, int]
	nodes   []node.Node[int, int]
	evicted []node.Node[int, int]
	tag     string
}

func (z *zzPol) evict(n node.Node[int, int], _ int64) {
	w := uint64(n.Weight())
	vAssert(w != 0, z.tag+".zero_weight_node_never_evicted")
	vAssert(z.p.weightedSize > z.p.maximum || w > z.p.maximum, z.tag+".eviction_only_while_over_the_maximum")
	z.evicted = append(z.evicted, n)
	z.p.delete(n)
}

// checkRI walks the three deques and compares with the counters.
func (z *zzPol) checkRI(tag string, live []node.Node[int, int]) {
	p := z.p
	seen := map[int]int{}
	var wAll, wWin, wProt uint64
	walk := func(seq func(yield func(node.Node[int, int]) bool), q uint8) {
		cnt := 0
		for n := range seq {
			cnt++
			if cnt > 8 {
				vAssert(false, tag+".deque_is_acyclic")
				return
			}
			seen[n.Key()]++
			vAssert(n.IsAlive(), tag+".linked_node_is_alive")
			vAssert(n.GetQueueType() == q, tag+".node_in_the_queue_its_type_names")
			w := uint64(n.Weight())
			wAll += w
			switch q {
			case node.InWindowQueue:
				wWin += w
			case node.InMainProtectedQueue:
				wProt += w
			}
		}
	}
	walk(p.window.All(), node.InWindowQueue)
	walk(p.probation.All(), node.InMainProbationQueue)
	walk(p.protected.All(), node.InMainProtectedQueue)
	for _, n := range live {
		vAssert(seen[n.Key()] == 1, tag+".every_live_node_linked_exactly_once")
	}
	for k, c := range seen {
		vAssert(c == 1, tag+".no_node_linked_twice")
		found := false
		for _, n := range live {
			if n.Key() == k {
				found = true
			}
		}
		vAssert(found, tag+".no_removed_node_still_linked")
	}
	vAssert(p.weightedSize == wAll, tag+".weighted_size_equals_sum")
	vAssert(p.windowWeightedSize == wWin, tag+".window_counter_equals_sum")
	vAssert(p.mainProtectedWeightedSize == wProt, tag+".protected_counter_equals_sum")
}

func ZZ_Policy_Step() {
	tag := "pol"
	vHashMode(1)
	N := vParam("nodes")
	M := uint64(vParam("max"))
	nm := node.NewManager[int, int](node.Config{WithWeight: true})
	p := newPolicy[int, int](true)
	p.setMaximumSize(M)
	p.rand = func() uint32 { return vU32("jitter") }
	if vParam("symsketch") == 1 {
		p.sketch.ensureCapacity(8)
		for i := range p.sketch.table {
			p.sketch.table[i] = vU64("sk")
		}
		p.sketch.size = 0
		p.sketch.sampleSize = math.MaxUint64 // no aging step during this one step
	}
	z := &zzPol{p: p, nm: nm, tag: tag}
	// arbitrary RI state
	for i := 0; i < N; i++ {
		w := vU32("w")
		n := nm.Create(i+1, i+1, math.MaxInt64, math.MaxInt64, w)
		switch vChoice("queue", 3) {
		case 0:
			p.window.PushBack(n)
			p.windowWeightedSize += uint64(w)
		case 1:
			n.MakeMainProbation()
			p.probation.PushBack(n)
		case 2:
			n.MakeMainProtected()
			p.protected.PushBack(n)
			p.mainProtectedWeightedSize += uint64(w)
		}
		p.weightedSize += uint64(w)
		z.nodes = append(z.nodes, n)
	}
	live := append([]node.Node[int, int](nil), z.nodes...)
	z.checkRI(tag+".pre", live)
	op := vChoice("op", 6)
	opn := []string{"add", "update", "delete", "access", "evictNodes", "setMaximum"}
	vScenario(opn[op])
	remove := func(n node.Node[int, int]) {
		for i := range live {
			if live[i].AsPointer() == n.AsPointer() {
				live = append(live[:i:i], live[i+1:]...)
				return
			}
		}
	}
	switch op {
	case 0:
		n := nm.Create(9, 9, math.MaxInt64, math.MaxInt64, vU32("wnew"))
		live = append(live, n)
		p.add(n, z.evict)
		p.evictNodes(z.evict)
	case 1:
		old := z.nodes[0]
		n := nm.Create(1, 11, math.MaxInt64, math.MaxInt64, vU32("wnew"))
		old.Retire()
		remove(old)
		live = append(live, n)
		p.update(n, old, z.evict)
		p.evictNodes(z.evict)
	case 2:
		n := z.nodes[0]
		n.Retire()
		remove(n)
		p.delete(n)
	case 3:
		p.access(z.nodes[0])
	case 4:
		p.evictNodes(z.evict)
	case 5:
		ms := []uint64{0, 1, M / 2, 2 * M}
		p.setMaximumSize(ms[vChoice("newmax", len(ms))])
		p.evictNodes(z.evict)
	}
	for _, e := range z.evicted {
		remove(e)
	}
	z.checkRI(tag+".post", live)
	if op == 0 || op == 1 || op == 4 || op == 5 {
		vAssert(p.weightedSize <= p.maximum, tag+".post.total_weight_within_maximum_after_eviction")
		vAssert(p.windowWeightedSize <= p.windowMaximum, tag+".post.window_within_its_maximum_after_eviction")
	}
	if vParam("canary") == 1 {
		vAssert(len(z.evicted) == 0, tag+".canary")
	}
}
