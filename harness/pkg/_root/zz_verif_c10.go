package otter

// C10 — load outcomes map to cache state and results as documented (BulkGet; single Get outcomes are
// the GetLoad* operations of the sequence oracle). Pre-state per key: absent / live / expired-unswept
// (Set at t0, symbolic advance); request list with duplicates over 3 keys; loader result shape chosen
// by the solver: per missing key supplied or not, an optional volunteered key, error, panic.

import "context"

func init() {
	vRegister("ZZ_C10_Bulk", ZZ_C10_Bulk)
	vRegister("ZZ_C10_Single", ZZ_C10_Single)
	vRegister("ZZ_C10_BulkStale", ZZ_C10_BulkStale)
}

func ZZ_C10_Bulk() {
	cfg := zzCfgFromParams()
	cfg.deferred = true
	cfg.stats = true
	s := zzNewSeq(cfg, "c10")
	c := s.env.c
	s.env.clk.now = zzTime("t0")
	for k := 1; k <= 2; k++ {
		if vChoice("pre", 2) == 1 {
			s.step(zzOpSet, k, "c10.prefix")
		}
	}
	s.advance()
	n := vParam("reqlen")
	req := make([]int, 0, n)
	for i := 0; i < n; i++ {
		req = append(req, 1+vChoice("req", zzNK))
	}
	mode := vChoice("mode", 4) // 0 ok, 1 error, 2 panic, 3 an error that wraps ErrNotFound (still a failure of the whole bulk load)
	modes := []string{"ok", "error", "panic", "error_wrapping_notfound"}
	vScenario("mode=" + modes[mode])

	// ---- the oracle's expectation ----
	var requested, isHit, isMiss, supplied [zzNK + 1]bool
	var hitVal, loadVal [zzNK + 1]int
	nMiss := 0
	for _, k := range req {
		if requested[k] {
			continue
		}
		requested[k] = true
		s.lookups++
		if s.present(k) {
			isHit[k] = true
			hitVal[k] = s.m[k].val
			s.hitsWant++
			s.modelReadHook(k)
		} else {
			isMiss[k] = true
			nMiss++
		}
	}
	extraKey := 0
	for k := 1; k <= zzNK; k++ {
		if isMiss[k] {
			supplied[k] = vChoice("supplied", 2) == 1
			loadVal[k] = s.fresh()
		}
	}
	if vChoice("extra", 2) == 1 {
		for k := zzNK; k >= 1; k-- {
			if !isMiss[k] {
				extraKey = k
				loadVal[k] = s.fresh()
				break
			}
		}
	}
	if nMiss > 0 {
		s.loads++
		if mode == 0 || mode == 3 {
			s.loadOK++ // the recorder counts a not-found outcome as a successful load
		}
	}
	if mode == 0 && nMiss > 0 {
		for k := 1; k <= zzNK; k++ {
			if isMiss[k] {
				if supplied[k] {
					s.modelWrite(k, loadVal[k])
				} else {
					s.modelMayDropExpired(k)
				}
			}
		}
		if extraKey != 0 {
			s.modelWrite(extraKey, loadVal[extraKey]) // volunteered keys are cached (unconditionally), not returned
		}
	}

	// ---- the real call ----
	calls := 0
	var sawKeys [zzNK + 1]int
	loader := BulkLoaderFunc[int, int](func(ctx context.Context, keys []int) (map[int]int, error) {
		calls++
		for _, k := range keys {
			vAssert(k >= 1 && k <= zzNK, "c10.loader.key_range")
			if k >= 1 && k <= zzNK {
				sawKeys[k]++
			}
		}
		if mode == 2 {
			panic("zz bulk boom")
		}
		res := map[int]int{}
		for k := 1; k <= zzNK; k++ {
			if isMiss[k] && supplied[k] {
				res[k] = loadVal[k]
			}
		}
		if extraKey != 0 {
			res[extraKey] = loadVal[extraKey]
		}
		if mode == 1 {
			return res, zzErrLoad
		}
		if mode == 3 {
			return res, zzErrWrapsNotFound
		}
		return res, nil
	})
	var got map[int]int
	var err error
	panicked := vExpectPanic(func() {
		got, err = c.BulkGet(context.Background(), req, loader)
	})

	// ---- comparison ----
	if nMiss == 0 {
		vAssert(calls == 0, "c10.loader_not_called_without_misses")
	} else {
		vAssert(calls == 1, "c10.loader_called_exactly_once")
		for k := 1; k <= zzNK; k++ {
			if isMiss[k] {
				vAssert(sawKeys[k] == 1, "c10.loader_gets_each_missing_key_once")
			} else {
				vAssert(sawKeys[k] == 0, "c10.loader_gets_only_missing_keys")
			}
		}
	}
	if mode == 2 && nMiss > 0 {
		vAssert(panicked, "c10.panic_propagates")
	} else {
		vAssert(!panicked, "c10.no_unexpected_panic")
		if mode == 1 && nMiss > 0 {
			vAssert(err == zzErrLoad, "c10.error_is_passed_through")
		} else if mode == 3 && nMiss > 0 {
			vAssert(err == error(zzErrWrapsNotFound), "c10.error_is_passed_through")
		} else {
			vAssert(err == nil, "c10.no_error")
		}
		for k := 1; k <= zzNK; k++ {
			v, ok := got[k]
			switch {
			case isHit[k]:
				vAssert(ok && v == hitVal[k], "c10.result.hit_returned")
			case isMiss[k] && supplied[k] && mode == 0:
				vAssert(ok && v == loadVal[k], "c10.result.supplied_returned")
			default:
				vAssert(!ok, "c10.result.only_requested_and_found_keys")
			}
		}
	}
	s.absorbOptional()
	s.syncEvents("c10")
	s.observe("c10.after")
	s.checkStats("c10")
	if vParam("canary") == 1 {
		vAssert(calls == 0, "c10.canary")
	}
}

// zzErrWrapsNotFound: a loader failure whose chain contains ErrNotFound.
var zzErrWrapsNotFound = &zzIdxErr{idx: -1, notFound: true}

// ZZ_C10_Single: single Get with every loader outcome including panic, from every pre-state.
func ZZ_C10_Single() {
	cfg := zzCfgFromParams()
	cfg.deferred = true
	cfg.stats = true
	s := zzNewSeq(cfg, "c10s")
	c := s.env.c
	s.env.clk.now = zzTime("t0")
	if vChoice("pre", 2) == 1 {
		s.step(zzOpSet, 1, "c10s.prefix")
	}
	s.advance()
	op := []int{zzOpGetLoadOK, zzOpGetLoadErr, zzOpGetLoadNotFound}[vChoice("outcome", 3)]
	vScenario(zzOpNames[op])
	s.step(op, 1, "c10s")
	s.observe("c10s.after")
	// a panicking loader: the panic surfaces, nothing is cached, no in-flight record is left behind
	if !s.present(2) {
		s.lookups++
		s.loads++
		panicked := vExpectPanic(func() {
			c.Get(context.Background(), 2, LoaderFunc[int, int](func(ctx context.Context, key int) (int, error) {
				panic("zz boom")
			}))
		})
		vAssert(panicked, "c10s.panic_propagates")
		s.observe("c10s.after_panic")
		s.step(zzOpGetLoadOK, 2, "c10s.after_panic")
		s.observe("c10s.final")
	}
}

type zzBulkLoader struct {
	load, reload func(keys []int) (map[int]int, error)
	loads, reloads int
	loadKeys, reloadKeys [zzNK + 1]int
}

func (b *zzBulkLoader) BulkLoad(ctx context.Context, keys []int) (map[int]int, error) {
	b.loads++
	for _, k := range keys {
		b.loadKeys[k]++
	}
	return b.load(keys)
}

func (b *zzBulkLoader) BulkReload(ctx context.Context, keys []int, old []int) (map[int]int, error) {
	b.reloads++
	for _, k := range keys {
		b.reloadKeys[k]++
	}
	return b.reload(keys)
}

// ZZ_C10_BulkStale: BulkGet over entries that are due for refresh (stale but alive) and a missing key:
// hits are returned with the value cached at that moment; the reload outcome (full, partial, error with a
// partial or nil map) maps to the cache as documented: success replaces, a key missing from a successful
// reload is removed, a failed reload leaves every entry unchanged.
func ZZ_C10_BulkStale() {
	cfg := zzCfgFromParams()
	cfg.deferred = false
	s := zzNewSeq(cfg, "c10r")
	c := s.env.c
	s.env.clk.now = zzTime("t0")
	s.step(zzOpSet, 1, "c10r.prefix")
	s.step(zzOpSet, 2, "c10r.prefix")
	s.advance()
	// 0 full, 1 partial (key 2 not found), 2 error + partial map, 3 error + nil map, 4 empty map without error (every
	// reloaded key not found), 5 nil map without error (likewise)
	mode := vChoice("reload", 6)
	rnames := []string{"full", "partial", "error_partial", "error_nil", "empty_ok", "nil_ok"}
	vScenario("reload=" + rnames[mode])
	stale1 := s.m[1].ref <= s.now()
	stale2 := s.m[2].ref <= s.now()
	old1, old2 := s.m[1].val, s.m[2].val
	oldRef1, oldRef2 := s.m[1].ref, s.m[2].ref
	n1, n2, n3 := s.fresh(), s.fresh(), s.fresh()
	bl := &zzBulkLoader{
		load: func(keys []int) (map[int]int, error) { return map[int]int{3: n3}, nil },
		reload: func(keys []int) (map[int]int, error) {
			res := map[int]int{}
			switch mode {
			case 0:
				res[1], res[2] = n1, n2
			case 1, 2:
				res[1] = n1
			case 3:
				return nil, zzErrLoad
			case 4:
				return res, nil
			case 5:
				return nil, nil
			}
			if mode == 2 {
				return res, zzErrLoad
			}
			return res, nil
		},
	}
	got, err := c.BulkGet(context.Background(), []int{1, 2, 3}, bl)
	vAssert(err == nil, "c10r.no_error_from_background_reload")
	vAssert(got[1] == old1 && got[2] == old2, "c10r.hits_return_value_cached_at_that_moment")
	vAssert(got[3] == n3 && len(got) == 3, "c10r.miss_loaded_and_returned")
	vAssert(bl.loads == 1 && bl.loadKeys[3] == 1 && bl.loadKeys[1] == 0 && bl.loadKeys[2] == 0, "c10r.bulkload_once_for_misses_only")
	if !stale1 && !stale2 {
		vAssert(bl.reloads == 0, "c10r.fresh_entries_are_not_reloaded")
	} else {
		vAssert(bl.reloads == 1, "c10r.bulkreload_once")
		vAssert((bl.reloadKeys[1] == 1) == stale1 && (bl.reloadKeys[2] == 1) == stale2 && bl.reloadKeys[3] == 0, "c10r.bulkreload_exactly_the_stale_keys")
	}
	// the cache afterwards
	e1, ok1 := c.GetEntryQuietly(1)
	e2, ok2 := c.GetEntryQuietly(2)
	e3, ok3 := c.GetEntryQuietly(3)
	vAssert(ok3 && e3.Value == n3, "c10r.loaded_key_cached")
	check := func(stale bool, supplied bool, ok bool, e Entry[int, int], oldV, newV int, oldRef int64, tag string) {
		switch {
		case !stale || mode == 2 || mode == 3:
			vAssert(ok && e.Value == oldV, "c10r.failed_or_no_reload_leaves_entry_unchanged"+tag)
			vAssert(ok && e.RefreshableAtNano == oldRef, "c10r.failed_or_no_reload_leaves_refresh_time"+tag)
		case supplied:
			vAssert(ok && e.Value == newV, "c10r.successful_reload_replaces"+tag)
		default:
			vAssert(!ok, "c10r.not_found_on_reload_removes"+tag)
		}
	}
	check(stale1, mode < 4, ok1, e1, old1, n1, oldRef1, "")
	check(stale2, mode == 0, ok2, e2, old2, n2, oldRef2, "")
}

func init() { vRegister("ZZ_C10_VolunteerVsLoad", ZZ_C10_VolunteerVsLoad) }

// ZZ_C10_VolunteerVsLoad: a BulkGet of key 1 whose bulk loader also volunteers key 2, racing with a single Get of key 2
// (loader outcome: value or error; both loaders are scheduling points). The BulkGet returns exactly {1: v1}; the
// volunteered key is cached without being returned: afterwards key 2 holds the volunteered value or the value the
// single load produced — and certainly the volunteered one when the single load failed. No in-flight record is left.
func ZZ_C10_VolunteerVsLoad() {
	out := vChoice("single", 2) // 0 value, 1 error
	vScenario("single=" + []string{"value", "error"}[out])
	c := Must(&Options[int, int]{Logger: &NoopLogger{}})
	sloads, bloads := 0, 0
	single := LoaderFunc[int, int](func(ctx context.Context, key int) (int, error) {
		vAtomic(func() { sloads++ })
		vYield()
		if out == 1 {
			return 0, zzErrLoad
		}
		return 902, nil
	})
	bulk := BulkLoaderFunc[int, int](func(ctx context.Context, keys []int) (map[int]int, error) {
		vAtomic(func() { bloads++ })
		vAssert(len(keys) == 1 && keys[0] == 1, "c10v.bulk_loader_asked_only_for_the_missing_requested_key")
		vYield()
		return map[int]int{1: 101, 2: 102}, nil
	})
	var gv int
	var gerr error
	var bres map[int]int
	var berr error
	vPar(func() { gv, gerr = c.Get(context.Background(), 2, single) },
		func() { bres, berr = c.BulkGet(context.Background(), []int{1}, bulk) })
	vAssert(berr == nil && len(bres) == 1 && bres[1] == 101, "c10v.bulkget_returns_exactly_the_requested_key")
	vAssert(bloads == 1, "c10v.bulk_loader_invoked_once")
	e1, ok1 := c.GetEntryQuietly(1)
	vAssert(ok1 && e1.Value == 101, "c10v.requested_key_cached")
	e2, ok2 := c.GetEntryQuietly(2)
	vAssert(ok2, "c10v.volunteered_key_is_cached")
	if ok2 {
		if out == 1 || sloads == 0 {
			vAssert(e2.Value == 102, "c10v.volunteered_value_cached_when_the_single_load_failed_or_never_ran")
		} else {
			vAssert(e2.Value == 102 || e2.Value == 902, "c10v.volunteered_or_loaded_value")
		}
	}
	if sloads == 0 {
		vAssert(gerr == nil && gv == 102, "c10v.get_served_from_the_volunteered_entry")
	} else if out == 0 {
		vAssert(gerr == nil && gv == 902, "c10v.get_returns_its_loaded_value")
	} else {
		vAssert(gerr == zzErrLoad, "c10v.get_returns_the_loader_error")
	}
	vAssert(c.cache.singleflight.getCall(1) == nil && c.cache.singleflight.getCall(2) == nil, "c10v.no_inflight_record_left")
}
