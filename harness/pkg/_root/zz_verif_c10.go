package otter

// C10 — load outcomes map to cache state and results as documented (BulkGet; single Get outcomes are
// the GetLoad* operations of the sequence oracle). Pre-state per key: absent / live / expired-unswept
// (Set at t0, symbolic advance); request list with duplicates over 3 keys; loader result shape chosen
// by the solver: per missing key supplied or not, an optional volunteered key, error, panic.

import "context"

func init() {
	vRegister("ZZ_C10_Bulk", ZZ_C10_Bulk)
	vRegister("ZZ_C10_Single", ZZ_C10_Single)
}

func ZZ_C10_Bulk() {
	cfg := zzCfgFromParams()
	cfg.deferred = true
	cfg.stats = true
	s := zzNewSeq(cfg, "c10")
	c := s.env.c
	s.env.clk.now = zzTime("t0")
	for k := 1; k <= 2; k++ {
		if vChoice("pre", 2) == 1 {
			s.step(zzOpSet, k, "c10.prefix")
		}
	}
	s.advance()
	n := vParam("reqlen")
	req := make([]int, 0, n)
	for i := 0; i < n; i++ {
		req = append(req, 1+vChoice("req", zzNK))
	}
	mode := vChoice("mode", 3) // 0 ok, 1 error, 2 panic
	modes := []string{"ok", "error", "panic"}
	vScenario("mode=" + modes[mode])

	// ---- the oracle's expectation ----
	var requested, isHit, isMiss, supplied [zzNK + 1]bool
	var hitVal, loadVal [zzNK + 1]int
	nMiss := 0
	for _, k := range req {
		if requested[k] {
			continue
		}
		requested[k] = true
		s.lookups++
		if s.present(k) {
			isHit[k] = true
			hitVal[k] = s.m[k].val
			s.hitsWant++
			s.modelReadHook(k)
		} else {
			isMiss[k] = true
			nMiss++
		}
	}
	extraKey := 0
	for k := 1; k <= zzNK; k++ {
		if isMiss[k] {
			supplied[k] = vChoice("supplied", 2) == 1
			loadVal[k] = s.fresh()
		}
	}
	if vChoice("extra", 2) == 1 {
		for k := zzNK; k >= 1; k-- {
			if !isMiss[k] {
				extraKey = k
				loadVal[k] = s.fresh()
				break
			}
		}
	}
	if nMiss > 0 {
		s.loads++
		if mode == 0 {
			s.loadOK++
		}
	}
	if mode == 0 && nMiss > 0 {
		for k := 1; k <= zzNK; k++ {
			if isMiss[k] {
				if supplied[k] {
					s.modelWrite(k, loadVal[k])
				} else {
					s.modelMayDropExpired(k)
				}
			}
		}
		if extraKey != 0 {
			s.modelWrite(extraKey, loadVal[extraKey]) // volunteered keys are cached (unconditionally), not returned
		}
	}

	// ---- the real call ----
	calls := 0
	var sawKeys [zzNK + 1]int
	loader := BulkLoaderFunc[int, int](func(ctx context.Context, keys []int) (map[int]int, error) {
		calls++
		for _, k := range keys {
			vAssert(k >= 1 && k <= zzNK, "c10.loader.key_range")
			if k >= 1 && k <= zzNK {
				sawKeys[k]++
			}
		}
		if mode == 2 {
			panic("zz bulk boom")
		}
		res := map[int]int{}
		for k := 1; k <= zzNK; k++ {
			if isMiss[k] && supplied[k] {
				res[k] = loadVal[k]
			}
		}
		if extraKey != 0 {
			res[extraKey] = loadVal[extraKey]
		}
		if mode == 1 {
			return res, zzErrLoad
		}
		return res, nil
	})
	var got map[int]int
	var err error
	panicked := vExpectPanic(func() {
		got, err = c.BulkGet(context.Background(), req, loader)
	})

	// ---- comparison ----
	if nMiss == 0 {
		vAssert(calls == 0, "c10.loader_not_called_without_misses")
	} else {
		vAssert(calls == 1, "c10.loader_called_exactly_once")
		for k := 1; k <= zzNK; k++ {
			if isMiss[k] {
				vAssert(sawKeys[k] == 1, "c10.loader_gets_each_missing_key_once")
			} else {
				vAssert(sawKeys[k] == 0, "c10.loader_gets_only_missing_keys")
			}
		}
	}
	if mode == 2 && nMiss > 0 {
		vAssert(panicked, "c10.panic_propagates")
	} else {
		vAssert(!panicked, "c10.no_unexpected_panic")
		if mode == 1 && nMiss > 0 {
			vAssert(err == zzErrLoad, "c10.error_is_passed_through")
		} else {
			vAssert(err == nil, "c10.no_error")
		}
		for k := 1; k <= zzNK; k++ {
			v, ok := got[k]
			switch {
			case isHit[k]:
				vAssert(ok && v == hitVal[k], "c10.result.hit_returned")
			case isMiss[k] && supplied[k] && mode == 0:
				vAssert(ok && v == loadVal[k], "c10.result.supplied_returned")
			default:
				vAssert(!ok, "c10.result.only_requested_and_found_keys")
			}
		}
	}
	s.absorbOptional()
	s.syncEvents("c10")
	s.observe("c10.after")
	s.checkStats("c10")
	if vParam("canary") == 1 {
		vAssert(calls == 0, "c10.canary")
	}
}

// ZZ_C10_Single: single Get with every loader outcome including panic, from every pre-state.
func ZZ_C10_Single() {
	cfg := zzCfgFromParams()
	cfg.deferred = true
	cfg.stats = true
	s := zzNewSeq(cfg, "c10s")
	c := s.env.c
	s.env.clk.now = zzTime("t0")
	if vChoice("pre", 2) == 1 {
		s.step(zzOpSet, 1, "c10s.prefix")
	}
	s.advance()
	op := []int{zzOpGetLoadOK, zzOpGetLoadErr, zzOpGetLoadNotFound}[vChoice("outcome", 3)]
	vScenario(zzOpNames[op])
	s.step(op, 1, "c10s")
	s.observe("c10s.after")
	// a panicking loader: the panic surfaces, nothing is cached, no in-flight record is left behind
	if !s.present(2) {
		s.lookups++
		s.loads++
		panicked := vExpectPanic(func() {
			c.Get(context.Background(), 2, LoaderFunc[int, int](func(ctx context.Context, key int) (int, error) {
				panic("zz boom")
			}))
		})
		vAssert(panicked, "c10s.panic_propagates")
		s.observe("c10s.after_panic")
		s.step(zzOpGetLoadOK, 2, "c10s.after_panic")
		s.observe("c10s.final")
	}
}
