package otter

// C02 — concurrent key-value operations are linearizable.
// (B): 2-3 threads of 1-2 operations each on keys {1,2}; the history (call/return instants on a logical clock,
// arguments, results) is recorded and checked against every total order that respects real-time order: some
// order must make every result equal to the sequential map's. A compute callback runs exactly once per call and
// read-modify-write callbacks from two threads are never lost.

import (
	"context"
	"sync"
)

func init() {
	vRegister("ZZ_C02_Linearizable", ZZ_C02_Linearizable)
}

const (
	zzLSet = iota
	zzLSetIfAbsent
	zzLGet
	zzLComputeInc
	zzLComputeIfAbsent
	zzLInvalidate
	zzLComputeIfPresentInc
	zzLGetLoad
	zzLComputeCancel
	zzLComputeIfAbsentCancel
	zzLGetEntry
	zzLN
	zzLAutoRemove = 100 // not chosen: an automatic removal reported by OnAtomicDeletion, entered into the history at that instant
)

var zzLNames = []string{"Set", "SetIfAbsent", "GetIfPresent", "ComputeInc", "ComputeIfAbsent", "Invalidate", "ComputeIfPresentInc", "GetLoad", "ComputeCancel", "ComputeIfAbsentCancel", "GetEntry"}

type zzLOp struct {
	kind, key, arg int
	rv            int
	rok           bool
	t0, t1        int
	cbCalls       int
	rerr          bool
	noInstall     bool // GetLoad only, chosen by the checker: the loaded value was handed to the caller but not installed
	tl, tle       int  // GetLoad only: instants at which the loader was entered and left
	sawV          int  // ComputeCancel: what the callback was shown
	sawF          bool
}

// zzLState is the sequential specification's state: the map, plus the loads in flight (a loading Get is two atomic
// steps: the miss, and later the installation of the loaded value — or nothing, if a write superseded the load, C09).
type zzLState struct {
	m       [3]int
	has     [3]bool
	pending []zzLPend
}

type zzLPend struct {
	o        *zzLOp
	definite bool // a write that began after the loader had been entered took effect: the load must not install
	maybe    bool // a write that began before the loader was entered took effect after the miss: either outcome is legal
}

// zzLApply runs one operation of the sequential specification and returns its result; wrote reports whether the
// operation is a write in the sense of C09 (it clears the key's in-flight load).
func zzLApply(st *zzLState, o *zzLOp) (rv int, rok bool, wrote bool) {
	k := o.key
	m, has := &st.m, &st.has
	switch o.kind {
	case zzLSet:
		old, was := m[k], has[k]
		m[k], has[k] = o.arg, true
		if was {
			return old, false, true
		}
		return o.arg, true, true
	case zzLSetIfAbsent:
		if has[k] {
			return m[k], false, false
		}
		m[k], has[k] = o.arg, true
		return o.arg, true, true
	case zzLGet, zzLGetEntry, zzLComputeCancel, zzLComputeIfAbsentCancel:
		// a cancelled computation reads like a lookup: the present value, or nothing
		if has[k] {
			return m[k], true, false
		}
		return 0, false, false
	case zzLComputeInc:
		if has[k] {
			m[k] = m[k] + 1
		} else {
			m[k], has[k] = 1, true
		}
		return m[k], true, true
	case zzLComputeIfAbsent:
		if has[k] {
			return m[k], true, false
		}
		m[k], has[k] = o.arg, true
		return o.arg, true, true
	case zzLInvalidate:
		if has[k] {
			v := m[k]
			m[k], has[k] = 0, false
			return v, true, true
		}
		return 0, false, true
	case zzLComputeIfPresentInc:
		if has[k] {
			m[k] = m[k] + 1
			return m[k], true, true
		}
		return 0, false, false
	case zzLAutoRemove:
		// removal by the cache itself: legal only for the value the map holds at that instant
		if has[k] && m[k] == o.arg {
			m[k], has[k] = 0, false
			return o.arg, true, true
		}
		return -1, false, false
	}
	return -1, false, false
}

// zzLEnt is one atomic step of the history: a whole operation, or the miss (phase 1) / installation (phase 2) of a
// loading Get.
type zzLEnt struct {
	o      *zzLOp
	phase  int
	t0, t1 int
}

// zzLStep applies one entry; false = this entry cannot come next in a legal sequential history.
func zzLStep(st *zzLState, e zzLEnt, all []*zzLOp) bool {
	o := e.o
	k := o.key
	if o.kind == zzLGetLoad {
		switch e.phase {
		case 0: // a Get that did not invoke its loader: a hit, or it joined the load of an overlapping Get (C08)
			if !o.rok {
				return false
			}
			if st.has[k] && st.m[k] == o.rv {
				return true
			}
			for _, x := range all {
				if x != o && x.kind == zzLGetLoad && x.key == k && x.cbCalls == 1 && x.arg == o.rv && !(x.t1 < o.t0 || o.t1 < x.t0) {
					return true
				}
			}
			return false
		case 1: // the miss
			if st.has[k] || !o.rok || o.rv != o.arg {
				return false
			}
			st.pending = append(st.pending, zzLPend{o: o})
			return true
		default: // the installation
			for i := range st.pending {
				if st.pending[i].o == o {
					p := st.pending[i]
					st.pending = append(st.pending[:i:i], st.pending[i+1:]...)
					if o.noInstall {
						return p.definite || p.maybe
					}
					if p.definite {
						return false
					}
					st.m[k], st.has[k] = o.arg, true
					return true
				}
			}
			return false
		}
	}
	rv, rok, wrote := zzLApply(st, o)
	if rv != o.rv || rok != o.rok {
		return false
	}
	if o.kind == zzLComputeCancel || o.kind == zzLComputeIfAbsentCancel {
		// a cancelled computation that meets an expired, unswept node drops it physically, which clears the key's
		// in-flight load: either outcome of that load is legal afterwards
		for i := range st.pending {
			if st.pending[i].o.key == k {
				st.pending[i].maybe = true
			}
		}
	}
	if wrote {
		for i := range st.pending {
			if st.pending[i].o.key == k {
				if o.t0 > st.pending[i].o.tl {
					st.pending[i].definite = true
				} else {
					st.pending[i].maybe = true
				}
			}
		}
	}
	return true
}

func zzLRun(c *Cache[int, int], clk *zzTick, o *zzLOp) {
	o.t0 = clk.now()
	switch o.kind {
	case zzLSet:
		o.rv, o.rok = c.Set(o.key, o.arg)
	case zzLSetIfAbsent:
		o.rv, o.rok = c.SetIfAbsent(o.key, o.arg)
	case zzLGet:
		o.rv, o.rok = c.GetIfPresent(o.key)
	case zzLGetEntry:
		var e Entry[int, int]
		e, o.rok = c.GetEntry(o.key)
		o.rv = e.Value
	case zzLComputeInc:
		o.rv, o.rok = c.Compute(o.key, func(old int, found bool) (int, ComputeOp) {
			o.cbCalls++
			if !found {
				return 1, WriteOp
			}
			return old + 1, WriteOp
		})
	case zzLComputeIfAbsent:
		o.rv, o.rok = c.ComputeIfAbsent(o.key, func() (int, bool) {
			o.cbCalls++
			return o.arg, false
		})
	case zzLInvalidate:
		o.rv, o.rok = c.Invalidate(o.key)
	case zzLComputeIfPresentInc:
		o.rv, o.rok = c.ComputeIfPresent(o.key, func(old int) (int, ComputeOp) {
			o.cbCalls++
			return old + 1, WriteOp
		})
	case zzLComputeCancel:
		o.rv, o.rok = c.Compute(o.key, func(old int, found bool) (int, ComputeOp) {
			o.cbCalls++
			o.sawV, o.sawF = old, found
			return o.arg, CancelOp
		})
	case zzLComputeIfAbsentCancel:
		o.rv, o.rok = c.ComputeIfAbsent(o.key, func() (int, bool) {
			o.cbCalls++
			return o.arg, true
		})
	case zzLGetLoad:
		v, err := c.Get(context.Background(), o.key, LoaderFunc[int, int](func(ctx context.Context, key int) (int, error) {
			o.cbCalls++
			o.tl = clk.now()
			vYield()
			o.tle = clk.now()
			return o.arg, nil
		}))
		o.rv, o.rok, o.rerr = v, err == nil, err != nil
	}
	o.t1 = clk.now()
}

// zzLinearizable: does some sequence of the atomic steps that respects real-time order reproduce every result and
// the final state? Every order and, for each loading Get, both outcomes of its installation are tried.
func zzLinearizable(ops []*zzLOp, init [3]int, initHas [3]bool, final [3]int, finalHas [3]bool) bool {
	var ents []zzLEnt
	var loads []*zzLOp
	for _, o := range ops {
		if o.kind == zzLGetLoad && o.cbCalls == 1 {
			ents = append(ents, zzLEnt{o: o, phase: 1, t0: o.t0, t1: o.tl}, zzLEnt{o: o, phase: 2, t0: o.tle, t1: o.t1})
			loads = append(loads, o)
		} else {
			ents = append(ents, zzLEnt{o: o, t0: o.t0, t1: o.t1})
		}
	}
	n := len(ents)
	var try func(li int) bool
	search := func() bool {
		used := make([]bool, n)
		var rec func(st zzLState, cnt int) bool
		rec = func(st zzLState, cnt int) bool {
			if cnt == n {
				return st.m == final && st.has == finalHas
			}
			for i := 0; i < n; i++ {
				if used[i] {
					continue
				}
				okRT := true
				for j := 0; j < n; j++ {
					if j != i && !used[j] && ents[j].t1 < ents[i].t0 {
						okRT = false
					}
				}
				if !okRT {
					continue
				}
				st2 := st
				st2.pending = append([]zzLPend(nil), st.pending...)
				if !zzLStep(&st2, ents[i], ops) {
					continue
				}
				used[i] = true
				if rec(st2, cnt+1) {
					return true
				}
				used[i] = false
			}
			return false
		}
		return rec(zzLState{m: init, has: initHas}, 0)
	}
	try = func(li int) bool {
		if li == len(loads) {
			return search()
		}
		loads[li].noInstall = false
		if try(li + 1) {
			return true
		}
		loads[li].noInstall = true
		r := try(li + 1)
		loads[li].noInstall = false
		return r
	}
	return try(0)
}

// zzLockedExec queues the maintenance tasks the cache hands to its executor (never run while the threads are racing).
type zzLockedExec struct {
	mu sync.Mutex
	q  []func()
}

func (e *zzLockedExec) exec(fn func()) {
	e.mu.Lock()
	e.q = append(e.q, fn)
	e.mu.Unlock()
}

func (e *zzLockedExec) run() {
	for {
		e.mu.Lock()
		if len(e.q) == 0 {
			e.mu.Unlock()
			return
		}
		fn := e.q[0]
		e.q = e.q[1:]
		e.mu.Unlock()
		fn()
	}
}

// Configurations (job parameter cfg):
//   0  plain cache (no policies), optionally pre-loaded with key 1
//   1  write-reset expiry under a manual clock with a queueing executor: key 1 is expired but not yet swept when the
//      threads start (abstractly absent); the clock stands still during the race, the queue and CleanUp run afterwards
//   2  MaximumSize 1 with a same-goroutine executor: maintenance (and size eviction) runs inside the writers; every
//      Overflow removal reported by OnAtomicDeletion enters the history as a removal at the instant of the report
func ZZ_C02_Linearizable() {
	cfg := vParam("cfg")
	clk := &zzTick{}
	o := &Options[int, int]{Logger: &NoopLogger{}}
	var mclk *zzClock
	var lex *zzLockedExec
	var autoMu sync.Mutex
	var auto []*zzLOp
	switch cfg {
	case 1:
		mclk = &zzClock{now: 1 << 32}
		lex = &zzLockedExec{}
		o.Clock = mclk
		o.Executor = lex.exec
		o.ExpiryCalculator = ExpiryWriting[int, int](1000)
	case 2:
		o.MaximumSize = 1
		o.Executor = func(fn func()) { fn() }
		o.OnAtomicDeletion = func(e DeletionEvent[int, int]) {
			if e.Cause == CauseOverflow || e.Cause == CauseExpiration {
				t := clk.now()
				autoMu.Lock()
				// the handler is called inside the table computation that unlinks the node; the unlinking itself takes
				// effect when that computation ends, so the removal's instant lies at or after the report (t1 open)
				auto = append(auto, &zzLOp{kind: zzLAutoRemove, key: e.Key, arg: e.Value, rv: e.Value, rok: true, t0: t, t1: 1 << 30})
				autoMu.Unlock()
			}
		}
	}
	c := Must(o)
	vDaemons() // an expiring cache starts periodicCleanUp, which waits for a ticker the manual clock never fires
	var init [3]int
	var initHas [3]bool
	switch cfg {
	case 0:
		if vChoice("pre", 2) == 1 {
			c.Set(1, 50)
			init[1], initHas[1] = 50, true
		}
	case 1:
		c.Set(1, 50)
		mclk.now += 1000 // the deadline has been reached: key 1 is absent for every operation, its node is still in the table
	case 2:
		if vChoice("pre", 2) == 1 {
			c.Set(1, 50)
			init[1], initHas[1] = 50, true
		}
	}
	nt := vParam("threads")
	per := vParam("ops_per_thread")
	samekey := vParam("samekey")
	var ops []*zzLOp
	thr := make([][]*zzLOp, nt)
	sc := ""
	for t := 0; t < nt; t++ {
		for i := 0; i < per; i++ {
			o := &zzLOp{kind: vChoice("op", zzLN), key: 1, arg: 100*(t+1) + i}
			if samekey == 0 {
				o.key = 1 + vChoice("key", 2)
			}
			sc += zzLNames[o.kind] + ";"
			ops = append(ops, o)
			thr[t] = append(thr[t], o)
		}
		sc += "|"
	}
	vScenario(sc)
	body := func(t int) func() {
		return func() {
			for _, o := range thr[t] {
				zzLRun(c, clk, o)
			}
		}
	}
	if nt == 2 {
		vPar(body(0), body(1))
	} else {
		vPar(body(0), body(1), body(2))
	}
	var final [3]int
	var finalHas [3]bool
	for k := 1; k <= 2; k++ {
		if e, ok := c.GetEntryQuietly(k); ok {
			final[k], finalHas[k] = e.Value, true
		}
	}
	if cfg == 1 {
		// pending maintenance changes nothing the abstract map can see (the clock has not moved)
		lex.run()
		c.CleanUp()
		lex.run()
		for k := 1; k <= 2; k++ {
			e, ok := c.GetEntryQuietly(k)
			vAssert(ok == finalHas[k] && (!ok || e.Value == final[k]), "c02.pending_maintenance_does_not_change_contents")
		}
	}
	ops = append(ops, auto...)
	for _, o := range ops {
		switch o.kind {
		case zzLComputeInc:
			vAssert(o.cbCalls == 1, "c02.compute_callback_exactly_once")
		case zzLComputeCancel:
			vAssert(o.cbCalls == 1, "c02.compute_callback_exactly_once")
			vAssert(o.sawF == o.rok && (!o.sawF || o.sawV == o.rv), "c02.cancelled_compute_returns_what_its_callback_saw")
		case zzLComputeIfAbsent, zzLComputeIfPresentInc, zzLComputeIfAbsentCancel:
			vAssert(o.cbCalls <= 1, "c02.conditional_compute_callback_at_most_once")
		case zzLGetLoad:
			vAssert(o.cbCalls <= 1 && !o.rerr, "c02.get_loads_at_most_once_and_succeeds")
		}
	}
	for _, o := range ops {
		vLog("op", o.kind, o.key, o.arg, o.rv, o.rok, o.t0, o.t1, o.cbCalls, o.tl, o.tle)
	}
	vLog("final", final[1], finalHas[1], final[2], finalHas[2])
	vAssert(zzLinearizable(ops, init, initHas, final, finalHas), "c02.history_is_linearizable")
	if vParam("canary") == 1 {
		vAssert(!finalHas[1], "c02.canary")
	}
}
