package otter

// C02 — concurrent key-value operations are linearizable.
// (B): 2-3 threads of 1-2 operations each on keys {1,2}; the history (call/return instants on a logical clock,
// arguments, results) is recorded and checked against every total order that respects real-time order: some
// order must make every result equal to the sequential map's. A compute callback runs exactly once per call and
// read-modify-write callbacks from two threads are never lost.

func init() {
	vRegister("ZZ_C02_Linearizable", ZZ_C02_Linearizable)
}

const (
	zzLSet = iota
	zzLSetIfAbsent
	zzLGet
	zzLComputeInc
	zzLComputeIfAbsent
	zzLInvalidate
	zzLComputeIfPresentInc
	zzLN
)

var zzLNames = []string{"Set", "SetIfAbsent", "GetIfPresent", "ComputeInc", "ComputeIfAbsent", "Invalidate", "ComputeIfPresentInc"}

type zzLOp struct {
	kind, key, arg int
	rv            int
	rok           bool
	t0, t1        int
	cbCalls       int
}

// zzLApply runs one operation of the sequential specification on m and returns its result.
func zzLApply(m *[3]int, has *[3]bool, o *zzLOp) (int, bool) {
	k := o.key
	switch o.kind {
	case zzLSet:
		old, was := m[k], has[k]
		m[k], has[k] = o.arg, true
		if was {
			return old, false
		}
		return o.arg, true
	case zzLSetIfAbsent:
		if has[k] {
			return m[k], false
		}
		m[k], has[k] = o.arg, true
		return o.arg, true
	case zzLGet:
		if has[k] {
			return m[k], true
		}
		return 0, false
	case zzLComputeInc:
		if has[k] {
			m[k] = m[k] + 1
		} else {
			m[k], has[k] = 1, true
		}
		return m[k], true
	case zzLComputeIfAbsent:
		if has[k] {
			return m[k], true
		}
		m[k], has[k] = o.arg, true
		return o.arg, true
	case zzLInvalidate:
		if has[k] {
			v := m[k]
			m[k], has[k] = 0, false
			return v, true
		}
		return 0, false
	case zzLComputeIfPresentInc:
		if has[k] {
			m[k] = m[k] + 1
			return m[k], true
		}
		return 0, false
	}
	return 0, false
}

func zzLRun(c *Cache[int, int], clk *zzTick, o *zzLOp) {
	o.t0 = clk.now()
	switch o.kind {
	case zzLSet:
		o.rv, o.rok = c.Set(o.key, o.arg)
	case zzLSetIfAbsent:
		o.rv, o.rok = c.SetIfAbsent(o.key, o.arg)
	case zzLGet:
		o.rv, o.rok = c.GetIfPresent(o.key)
	case zzLComputeInc:
		o.rv, o.rok = c.Compute(o.key, func(old int, found bool) (int, ComputeOp) {
			o.cbCalls++
			if !found {
				return 1, WriteOp
			}
			return old + 1, WriteOp
		})
	case zzLComputeIfAbsent:
		o.rv, o.rok = c.ComputeIfAbsent(o.key, func() (int, bool) {
			o.cbCalls++
			return o.arg, false
		})
	case zzLInvalidate:
		o.rv, o.rok = c.Invalidate(o.key)
	case zzLComputeIfPresentInc:
		o.rv, o.rok = c.ComputeIfPresent(o.key, func(old int) (int, ComputeOp) {
			o.cbCalls++
			return old + 1, WriteOp
		})
	}
	o.t1 = clk.now()
}

// zzLinearizable: does some permutation of ops respecting real-time order reproduce all results (and the final state)?
func zzLinearizable(ops []*zzLOp, init [3]int, initHas [3]bool, final [3]int, finalHas [3]bool) bool {
	n := len(ops)
	perm := make([]int, 0, n)
	used := make([]bool, n)
	var rec func() bool
	rec = func() bool {
		if len(perm) == n {
			m, has := init, initHas
			for _, i := range perm {
				v, ok := zzLApply(&m, &has, ops[i])
				if v != ops[i].rv || ok != ops[i].rok {
					return false
				}
			}
			return m == final && has == finalHas
		}
		for i := 0; i < n; i++ {
			if used[i] {
				continue
			}
			// real-time order: i may come next only if no unused op returned before i was called
			okRT := true
			for j := 0; j < n; j++ {
				if j != i && !used[j] && ops[j].t1 < ops[i].t0 {
					okRT = false
				}
			}
			if !okRT {
				continue
			}
			used[i] = true
			perm = append(perm, i)
			if rec() {
				return true
			}
			perm = perm[:len(perm)-1]
			used[i] = false
		}
		return false
	}
	return rec()
}

func ZZ_C02_Linearizable() {
	c := Must(&Options[int, int]{Logger: &NoopLogger{}})
	clk := &zzTick{}
	var init [3]int
	var initHas [3]bool
	if vChoice("pre", 2) == 1 {
		c.Set(1, 50)
		init[1], initHas[1] = 50, true
	}
	nt := vParam("threads")
	per := vParam("ops_per_thread")
	samekey := vParam("samekey")
	var ops []*zzLOp
	thr := make([][]*zzLOp, nt)
	sc := ""
	for t := 0; t < nt; t++ {
		for i := 0; i < per; i++ {
			o := &zzLOp{kind: vChoice("op", zzLN), key: 1, arg: 100*(t+1) + i}
			if samekey == 0 {
				o.key = 1 + vChoice("key", 2)
			}
			sc += zzLNames[o.kind] + ";"
			ops = append(ops, o)
			thr[t] = append(thr[t], o)
		}
		sc += "|"
	}
	vScenario(sc)
	body := func(t int) func() {
		return func() {
			for _, o := range thr[t] {
				zzLRun(c, clk, o)
			}
		}
	}
	if nt == 2 {
		vPar(body(0), body(1))
	} else {
		vPar(body(0), body(1), body(2))
	}
	var final [3]int
	var finalHas [3]bool
	for k := 1; k <= 2; k++ {
		if e, ok := c.GetEntryQuietly(k); ok {
			final[k], finalHas[k] = e.Value, true
		}
	}
	for _, o := range ops {
		switch o.kind {
		case zzLComputeInc:
			vAssert(o.cbCalls == 1, "c02.compute_callback_exactly_once")
		case zzLComputeIfAbsent, zzLComputeIfPresentInc:
			vAssert(o.cbCalls <= 1, "c02.conditional_compute_callback_at_most_once")
		}
	}
	vAssert(zzLinearizable(ops, init, initHas, final, finalHas), "c02.history_is_linearizable")
	if vParam("canary") == 1 {
		vAssert(!finalHas[1], "c02.canary")
	}
}
