package otter

// C14 — maintenance is never stranded: no lost wake-up after a write.
// The drain-status protocol (idle / required / processing-to-idle / processing-to-required), the try-lock
// hand-off and the default executor (go fn()) are the real code; every atomic, mutex operation and goroutine
// start is a scheduling point of the engine's scheduler, whose choices are decision variables (pre-emption bound).
// The cache is constructed directly with both policies off, so runTask/expireNodes/evictNodes/climb are trivial
// and the protocol is isolated without replacing any function. A run task is recognised by putTask having
// reset it. Terminal states are examined after every thread the harness or the cache started has finished.

import (
	"github.com/maypok86/otter/v2/internal/deque/queue"
	"github.com/maypok86/otter/v2/internal/generated/node"
	"github.com/maypok86/otter/v2/internal/lossy"
	"github.com/maypok86/otter/v2/stats"
)

func init() {
	vRegister("ZZ_C14_Protocol", ZZ_C14_Protocol)
	vRegister("ZZ_C14_Cache", ZZ_C14_Cache)
}

func zzProtocolCache() *cache[int, int] {
	nm := node.NewManager[int, int](node.Config{WithSize: true})
	c := &cache[int, int]{
		nodeManager:        nm,
		stats:              &stats.NoopRecorder{},
		logger:             &NoopLogger{},
		executor:           defaultExecutor,
		hasDefaultExecutor: true,
		withMaintenance:    true,
	}
	c.readBuffer = lossy.NewStriped(4, nm)
	c.writeBuffer = queue.NewMPSC[task[int, int]](minWriteBufferSize, 128)
	return c
}

func ZZ_C14_Protocol() {
	c := zzProtocolCache()
	nw := vParam("writers")
	var tasks [4]*task[int, int]
	for i := 0; i < nw; i++ {
		tasks[i] = &task[int, int]{n: c.nodeManager.Create(i+1, i+1, 0, 0, 1), writeReason: addReason}
	}
	nfill := 0
	var fill [8]*task[int, int]
	if vParam("full") == 1 {
		// the write buffer holds its maximum number of events when the writers arrive (smallest legal buffer: 2 growing
		// to 4): their first offer is refused, they retry after asking for a drain and fall back to running the
		// maintenance themselves
		c.writeBuffer = queue.NewMPSC[task[int, int]](2, 4)
		for nfill < len(fill) {
			t := &task[int, int]{n: c.nodeManager.Create(100+nfill, 100+nfill, 0, 0, 1), writeReason: addReason}
			if !c.writeBuffer.TryPush(t) {
				break
			}
			fill[nfill] = t
			nfill++
		}
		vAssert(nfill == 4, "c14.full.prefill_reaches_the_maximum")
	}
	if vParam("pending") == 1 {
		// a maintenance run is already scheduled/processing when the writers arrive
		c.scheduleDrainBuffers()
	}
	w := func(i int) func() { return func() { c.afterWriteTask(tasks[i]) } }
	switch {
	case nw == 1 && vParam("cleaner") == 1:
		vPar(w(0), func() { c.CleanUp() })
	case nw == 1:
		vPar(w(0))
	case nw == 2 && vParam("cleaner") == 1:
		vPar(w(0), w(1), func() { c.CleanUp() })
	case nw == 2:
		vPar(w(0), w(1))
	default:
		vPar(w(0), w(1), w(2))
	}
	// all cache calls returned and every goroutine the cache started has finished: nothing may be stranded
	for i := 0; i < nw; i++ {
		vAssert(tasks[i].writeReason == unknownReason && tasks[i].n == nil, "c14.every_recorded_write_applied")
	}
	for i := 0; i < nfill; i++ {
		vAssert(fill[i].writeReason == unknownReason && fill[i].n == nil, "c14.every_recorded_write_applied")
	}
	vAssert(c.writeBuffer.IsEmpty(), "c14.write_buffer_drained")
	vAssert(c.drainStatus.Load() == idle, "c14.no_outstanding_maintenance")
	vAssert(c.evictionMutex.TryLock(), "c14.eviction_lock_released")
	if vParam("canary") == 1 {
		vAssert(c.drainStatus.Load() != idle, "c14.canary")
	}
}

// ZZ_C14_Cache: the real cache (MaximumSize 1, default executor): two concurrent writers; afterwards, without
// any further cache call, the size bound is restored, deletion notifications are delivered and no maintenance
// is outstanding.
func ZZ_C14_Cache() {
	var atomicEv, plainEv []zzEvent
	c := Must(&Options[int, int]{
		MaximumSize: 1,
		Logger:      &NoopLogger{},
		OnAtomicDeletion: func(e DeletionEvent[int, int]) {
			atomicEv = append(atomicEv, zzEvent{key: e.Key, val: e.Value, cause: e.Cause})
		},
		OnDeletion: func(e DeletionEvent[int, int]) {
			vAtomic(func() { plainEv = append(plainEv, zzEvent{key: e.Key, val: e.Value, cause: e.Cause}) })
		},
	})
	vPar(func() { c.Set(1, 101) }, func() { c.Set(2, 102) })
	impl := c.cache
	vAssert(impl.hashmap.Size() <= 1, "c14.cache.size_bound_restored_without_further_calls")
	vAssert(impl.drainStatus.Load() == idle, "c14.cache.no_outstanding_maintenance")
	vAssert(impl.writeBuffer.IsEmpty(), "c14.cache.write_buffer_drained")
	vAssert(len(plainEv) == len(atomicEv), "c14.cache.pending_notifications_delivered")
}
