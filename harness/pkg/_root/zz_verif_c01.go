package otter

// C01 — sequential conformance to a map-with-deadlines model.
// Family S1 (symtime=1): deferred executor, every clock advance and duration a 64-bit symbol, operations
// chosen by vChoice (the engine forks over all of them), oracle compared after every call.
// Family S2 (symtime=0): same-goroutine executor, maintenance runs inside the operations, clock advances
// chosen from concrete offsets around the deadlines (a sweep with a symbolic clock is C13's subject),
// weights symbolic.

func init() {
	vRegister("ZZ_C01_Seq", ZZ_C01_Seq)
	vRegister("ZZ_C01_Sync", ZZ_C01_Sync)
}

// ZZ_C01_Sync — family S2: same-goroutine executor, so write-buffer draining, eviction and the expiration
// sweep run inside the operations. Prefix Set(1), Set(2); then one operation (all 23, CleanUp included)
// on key 1|2|3 after a clock offset chosen around the deadlines; then CleanUp and the observers.
// Weights are symbolic; durations are concrete (the sweep arithmetic with a symbolic clock is C13's).
func ZZ_C01_Sync() { zzRunSync("c01s", zzCfgFromParams()) }

func zzRunSync(tag string, cfg zzCfg) *zzSeq {
	var ws [8]uint32
	if cfg.bound == 2 {
		for i := range ws {
			ws[i] = vU32("w")
		}
		cfg.weigher = func(k, v int) uint32 { return ws[(v-100)&7] }
	}
	s := zzNewSeqD(cfg, tag, true)
	s.env.clk.now = 1 << 32
	s.step(zzOpSet, 1, tag)
	s.observe(tag)
	s.step(zzOpSet, 2, tag)
	s.observe(tag)
	steps := vParam("steps")
	sc := "Set;Set;"
	for i := 0; i < steps; i++ {
		offs := []int64{0, 1_999_999_999, 2_000_000_000, 5_000_000_000}
		s.env.clk.now += offs[vChoice("dt", len(offs))]
		op := vChoice("op", zzOpN)
		k := 1 + vChoice("key", 3)
		sc += zzOpNames[op] + ";"
		vScenario(sc)
		s.step(op, k, tag)
		s.observe(tag)
	}
	s.step(zzOpCleanUp, 1, tag+".cleanup")
	s.observe(tag+".final")
	s.iterate(tag+".final")
	s.syncPlain(tag+".final")
	return s
}

func zzPickOp(name string, set int) int {
	switch set {
	case 0: // everything except CleanUp
		return vChoice(name, zzOpCleanUp)
	case 1: // everything
		return vChoice(name, zzOpN)
	case 3: // representative middle step: one of each behaviour class
		ops := []int{zzOpSet, zzOpSetIfAbsent, zzOpGetIfPresent, zzOpComputeWrite, zzOpComputeCancel, zzOpInvalidate, zzOpSetExpiresAfter, zzOpGetLoadOK}
		return ops[vChoice(name, len(ops))]
	case 2: // writes and reads only (cheap prefix)
		ops := []int{zzOpSet, zzOpSetIfAbsent, zzOpGetIfPresent, zzOpComputeWrite, zzOpInvalidate, zzOpGetLoadOK}
		return ops[vChoice(name, len(ops))]
	}
	return vParam(name)
}

func ZZ_C01_Seq() { zzRunSym("c01", zzCfgFromParams()) }

func zzRunSym(tag string, cfg zzCfg) *zzSeq {
	symtime := vParam("symtime") == 1
	steps := vParam("steps")
	nkeys := vParam("nkeys")
	var ws [8]uint32
	if cfg.bound == 2 {
		for i := range ws {
			ws[i] = vU32("w")
		}
		cfg.weigher = func(k, v int) uint32 { return ws[(v-100)&7] }
	}
	s := zzNewSeqD(cfg, tag, !symtime)
	s.env.clk.now = 1 << 32
	if symtime {
		s.env.clk.now = zzTime("t0")
	}
	sc := ""
	for i := 0; i < steps; i++ {
		if i > 0 {
			if symtime {
				s.advance()
			} else {
				offs := []int64{0, 1, 1_499_999_999, 1_500_000_000, 2_000_000_000, 2_000_000_001, 5_000_000_000}
				s.env.clk.now += offs[vChoice("dt", len(offs))]
			}
		}
		var op int
		if i == steps-2 && vParam("midset") >= 0 {
			op = zzPickOp("op", vParam("midset"))
		} else if i < steps-2 {
			if f := vParam("firstop"); f >= 0 {
				op = f
			} else {
				op = zzPickOp("op", vParam("prefixset"))
			}
		} else {
			op = zzPickOp("op", vParam("opset"))
		}
		k := 1
		if nkeys > 1 && i > 0 && (i < steps-1 || vParam("lastkeys") > 1) {
			k = 1 + vChoice("key", nkeys)
		}
		sc += zzOpNames[op] + ";"
		vScenario(sc)
		s.step(op, k, tag)
		s.observe(tag)
	}
	s.iterate(tag+".final")
	if vParam("canary") == 1 {
		_, ok := s.env.c.GetEntryQuietly(1)
		vAssert(!ok, tag+".canary")
	}
	return s
}

func init() { vRegister("ZZ_C17_Saturated", ZZ_C17_Saturated) }

// ZZ_C17_Saturated — dropping reads never changes what any cache operation returns: the read buffer is kept
// saturated (16 recorded reads in the only stripe, drains prevented by holding the eviction lock in-package), then
// every read and write operation must still return exactly what the oracle says; after the lock is released and
// maintenance runs, the contents still agree.
func ZZ_C17_Saturated() {
	cfg := zzCfgFromParams()
	s := zzNewSeqD(cfg, "c17c", true)
	c := s.env.c
	s.env.clk.now = 1 << 32
	s.step(zzOpSet, 1, "c17c.prefix")
	s.step(zzOpSet, 2, "c17c.prefix")
	c.cache.evictionMutex.Lock()
	for i := 0; i < 24; i++ {
		s.step(zzOpGetIfPresent, 1+i%2, "c17c.fill")
	}
	if c.cache.skipReadBuffer() {
		vAssert(c.cache.readBuffer.Len() == 0, "c17c.read_buffer_unused_while_frequency_tracking_is_off")
	} else {
		vAssert(c.cache.readBuffer.Len() == 16, "c17c.read_buffer_holds_exactly_its_capacity")
	}
	ops := []int{zzOpGetIfPresent, zzOpGetEntry, zzOpGetEntryQuietly, zzOpSet, zzOpSetIfAbsent, zzOpComputeWrite, zzOpComputeCancel,
		zzOpComputeIfAbsentWrite, zzOpComputeIfPresentWrite, zzOpInvalidate, zzOpGetLoadOK, zzOpGetLoadNotFound}
	for i := 0; i < vParam("steps"); i++ {
		op := ops[vChoice("op", len(ops))]
		k := 1 + vChoice("key", 3)
		vScenario(zzOpNames[op])
		s.step(op, k, "c17c")
		s.observe("c17c")
	}
	c.cache.evictionMutex.Unlock()
	s.step(zzOpCleanUp, 1, "c17c.cleanup")
	s.observe("c17c.final")
	vAssert(c.cache.readBuffer.Len() == 0, "c17c.recorded_reads_delivered_at_quiescence")
}
