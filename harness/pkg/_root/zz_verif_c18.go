package otter

// C18 — frequency estimates never under-count and admission follows them.
// One inductive step from an arbitrary sketch state: table words, size, sampleSize and both keys'
// hashes are symbolic (hash mode 1 = maphash.Comparable is an arbitrary function).

func init() {
	vRegister("ZZ_C18_Increment", ZZ_C18_Increment)
	vRegister("ZZ_C18_Reset", ZZ_C18_Reset)
	vRegister("ZZ_C18_Uninit", ZZ_C18_Uninit)
	vRegister("ZZ_C18_EnsureCapacity", ZZ_C18_EnsureCapacity)
	vRegister("ZZ_C18_Admit", ZZ_C18_Admit)
}

func zzSketch(words int) *sketch[uint64] {
	s := newSketch[uint64]()
	s.table = make([]uint64, words)
	s.blockMask = uint64(words>>3) - 1
	s.isInitialized.Store(true)
	for i := range s.table {
		s.table[i] = vU64("tbl")
	}
	s.size = vU64("size")
	s.sampleSize = vU64("sampleSize")
	return s
}

// ZZ_C18_Increment: increment(k) raises frequency(k) by at least one (capped at 15) when no aging step
// fires; an aging step halves; increments of another key never lower frequency(k) within a period.
func ZZ_C18_Increment() {
	vHashMode(1)
	words := vParam("words")
	s := zzSketch(words)
	vAssume(s.size < s.sampleSize) // representation invariant: a period is open
	canary := vParam("canary")
	k, k2 := uint64(1), uint64(2)
	f0 := s.frequency(k)
	vAssert(f0 <= 15, "c18.cap.before")
	// an aging step can fire only when this increment completes the sample (size+1 == sampleSize);
	// when it cannot fire the strong bound is asserted, otherwise the halved one (which also covers
	// "could have fired but nothing was added").
	reset1 := s.size+1 == s.sampleSize
	s.increment(k2)
	f1 := s.frequency(k)
	if !reset1 {
		vAssert(f1 >= f0, "c18.other_key_never_lowers")
		vReach("c18.noreset.reached")
	} else {
		vAssert(f1 >= f0>>1, "c18.reset_halves_at_most")
		vReach("c18.reset.reached")
	}
	reset2 := s.size+1 == s.sampleSize
	vAssume(s.size < s.sampleSize)
	s.increment(k)
	f2 := s.frequency(k)
	vAssert(f2 <= 15, "c18.cap.after")
	want := f1 + 1
	if want > 15 {
		want = 15
	}
	if canary == 1 {
		vAssert(f2 >= f1+1, "c18.canary")
	}
	if !reset2 {
		vAssert(f2 >= want, "c18.no_undercount")
	} else {
		vAssert(f2 >= want>>1, "c18.no_undercount_after_reset")
	}
}

// ZZ_C18_Reset: an aging step halves every 4-bit counter and the sample size bookkeeping.
func ZZ_C18_Reset() {
	vHashMode(1)
	words := vParam("words")
	s := zzSketch(words)
	slot := vInt("slot")
	idx := vU64("idx")
	vAssume(slot >= 0 && slot < words)
	vAssume(idx < 16)
	before := (s.table[slot] >> (idx << 2)) & 0xf
	k := uint64(1)
	f0 := s.frequency(k)
	s.reset()
	after := (s.table[slot] >> (idx << 2)) & 0xf
	vAssert(after == before>>1, "c18.reset.halves_every_counter")
	vAssert(s.frequency(k) == f0>>1, "c18.reset.halves_estimate")
}

// ZZ_C18_Uninit: before frequency tracking is enabled every estimate is zero and recording is a no-op.
func ZZ_C18_Uninit() {
	vHashMode(1)
	s := newSketch[uint64]()
	k := vU64("key")
	vAssert(s.frequency(k) == 0, "c18.uninit.zero")
	s.increment(k)
	vAssert(s.frequency(k) == 0, "c18.uninit.noop")
	vAssert(len(s.table) == 0, "c18.uninit.notable")
}

func zzPow2Ceil(m uint64) uint64 {
	p := uint64(1)
	for p < m {
		p <<= 1
	}
	return p
}

// ZZ_C18_EnsureCapacity: table length = max(8, pow2ceil(m)), blockMask, sampleSize, zeroed, never shrinks.
func ZZ_C18_EnsureCapacity() {
	vHashMode(1)
	s := newSketch[uint64]()
	m := vU64("m")
	maxM := uint64(vParam("maxM"))
	vAssume(m <= maxM)
	s.ensureCapacity(m)
	n := uint64(len(s.table))
	if m == 0 {
		// len(table)=0 >= 0: nothing happens
		vAssert(n == 0, "c18.ensure.zero")
		return
	}
	want := zzPow2Ceil(vConcrete(m))
	if want < 8 {
		want = 8
	}
	vAssert(n == want, "c18.ensure.len")
	vAssert(s.blockMask == n/8-1, "c18.ensure.blockmask")
	vAssert(s.sampleSize == 10*m, "c18.ensure.samplesize")
	vAssert(s.size == 0, "c18.ensure.size")
	i := vInt("i")
	vAssume(i >= 0 && uint64(i) < n)
	vAssert(s.table[i] == 0, "c18.ensure.zeroed")
	vAssert(!s.isNotInitialized(), "c18.ensure.initialized")
	// a key recorded once now has estimate >= 1 and all accesses stay in range (index panics are violations)
	k := uint64(7)
	s.increment(k)
	if s.sampleSize > 1 {
		vAssert(s.frequency(k) >= 1, "c18.ensure.usable")
	}
	// never shrinks
	m2 := vU64("m2")
	vAssume(m2 <= m)
	s.ensureCapacity(m2)
	vAssert(uint64(len(s.table)) == n, "c18.ensure.noshrink")
	// growth of a sketch that has already recorded events: a fresh sampling period starts with the new table
	// (zeroed counters, size 0, sample size of the new maximum), so that no estimate is halved early
	m3 := vU64("m3")
	vAssume(m3 > n && m3 <= 4*maxM)
	vAssert(s.size >= 1 || s.sampleSize <= 1, "c18.ensure.regrow.recorded_before_growth")
	s.ensureCapacity(m3)
	n3 := uint64(len(s.table))
	vAssert(n3 >= m3 && n3 > n, "c18.ensure.regrow.len")
	vAssert(s.size == 0, "c18.ensure.regrow.sampling_period_restarts")
	vAssert(s.sampleSize == 10*m3, "c18.ensure.regrow.samplesize")
	vAssert(s.blockMask == n3/8-1, "c18.ensure.regrow.blockmask")
	j := vInt("j")
	vAssume(j >= 0 && uint64(j) < n3)
	vAssert(s.table[j] == 0, "c18.ensure.regrow.zeroed")
}

// ZZ_C18_Admit: a candidate displaces the victim only if its estimate is strictly greater, apart from
// the 1/128 random admission of candidates with estimate >= 6.
func ZZ_C18_Admit() {
	vHashMode(1)
	words := vParam("words")
	p := &policy[uint64, uint64]{}
	p.sketch = zzSketch(words)
	cand, victim := uint64(1), uint64(2)
	fc := p.sketch.frequency(cand)
	fv := p.sketch.frequency(victim)
	p.rand = func() uint32 { return vU32("jitter") }
	jit := uint32(0)
	called := false
	inner := p.rand
	p.rand = func() uint32 { called = true; jit = inner(); return jit }
	ok := p.admit(cand, victim)
	if fc > fv {
		vAssert(ok, "c18.admit.greater_admits")
	}
	if ok {
		vAssert(fc > fv || (fc >= 6 && called && jit&127 == 0), "c18.admit.only_if_greater_or_jitter")
	}
	if vParam("canary") == 1 {
		vAssert(!ok || fc > fv, "c18.admit.canary")
	}
}

func init() { vRegister("ZZ_C18_History", ZZ_C18_History) }

// ZZ_C18_History: a short history on a freshly built sketch — increments of two keys and growths of the table in every
// order (hashes are arbitrary functions of (seed, key): a growth re-seeds). After every step both estimates are at
// least the number of times the key was recorded since the last growth (capped at 15, no aging step is reachable within
// the bound: the sampling period is 80+ events) and never exceed 15, regardless of what was recorded for the other key
// and of which key was looked at last.
func ZZ_C18_History() {
	if vParam("symhash") == 1 {
		vHashMode(1)
	}
	s := newSketch[uint64]()
	capNow := uint64(8)
	s.ensureCapacity(capNow)
	keys := []uint64{11, 22}
	var cnt [2]uint64
	steps := vParam("steps")
	probeAll := vChoice("probe", 2) == 1 // estimates are read after every step, or only at the end of the history
	sc := []string{"probe=end;", "probe=every_step;"}[vChoice("probe_name", 1)]
	if probeAll {
		sc = "probe=every_step;"
	}
	for i := 0; i < steps; i++ {
		op := vChoice("op", 3)
		switch op {
		case 0, 1:
			sc += []string{"inc(a);", "inc(b);"}[op]
			vScenario(sc)
			s.increment(keys[op])
			cnt[op]++
		case 2:
			sc += "grow;"
			vScenario(sc)
			capNow *= 2
			s.ensureCapacity(capNow)
			cnt = [2]uint64{}
		}
		vAssert(s.size < s.sampleSize, "c18h.no_aging_step_within_the_bound")
		if !probeAll && i != steps-1 {
			continue
		}
		// look at the keys in both orders: the estimate must not depend on who was asked last
		for _, q := range []int{0, 1, 0} {
			f := s.frequency(keys[q])
			want := cnt[q]
			if want > 15 {
				want = 15
			}
			vAssert(f >= want, "c18h.estimate_at_least_times_recorded_since_growth")
			vAssert(f <= 15, "c18h.estimate_at_most_15")
		}
	}
}
