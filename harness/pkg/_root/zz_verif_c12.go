package otter

import "time"

// C12 — expiration and refresh deadlines are computed exactly and without overflow.
// now in [0, 2^63), d in [1, MaxInt64], all 64-bit values at once; real New/Set/GetIfPresent/
// SetExpiresAfter/SetRefreshableAfter/GetEntryQuietly with the deferred executor (no sweep interferes).

func init() {
	vRegister("ZZ_C12_Expiry", ZZ_C12_Expiry)
	vRegister("ZZ_C12_Refresh", ZZ_C12_Refresh)
}

func zzDur(name string) time.Duration {
	d := time.Duration(vI64(name))
	vAssume(d >= 1)
	return d
}

func zzTime(name string) int64 {
	t := vI64(name)
	// clock readings are non-negative and below MaxInt64 (the cache's own "unreachable" sentinel)
	vAssume(t >= 0 && t < int64(^uint64(0)>>1))
	return t
}

// zzCheckDeadline asserts the C12 contract for a deadline computed at `now` from duration d.
func zzCheckDeadline(env *zzEnv, key int, now int64, d time.Duration, probe int64, tag string) {
	e, ok := env.c.GetEntryQuietly(key)
	if zzAddOK(now, d) {
		vAssert(ok || now+int64(d) <= env.clk.now, tag+".present")
		if ok {
			vAssert(e.ExpiresAtNano == now+int64(d), tag+".exact")
		}
	}
	// visibility at an arbitrary probe time in [now, ...): visible iff probe < now+d (mathematically)
	saved := env.clk.now
	env.clk.now = probe
	_, vis := env.c.GetEntryQuietly(key)
	env.clk.now = saved
	if zzAddOK(now, d) {
		vAssert(vis == (probe < now+int64(d)), tag+".visible_iff_before_deadline")
	} else {
		// now+d exceeds MaxInt64: "effectively never" — visible at every representable time
		vAssert(vis, tag+".never_expires_when_sum_overflows")
	}
}

func ZZ_C12_Expiry() {
	cfg := zzCfgFromParams()
	op := vParam("op") // 0 create, 1 update, 2 read, 3 SetExpiresAfter, 4 SetIfAbsent-hit (read hook)
	dC, dU, dR := zzDur("dCreate"), zzDur("dUpdate"), zzDur("dRead")
	switch cfg.expiry {
	case zzExpCustom:
		cfg.expC = &zzCustomExpiry{create: dC, update: dU, read: dR}
	default:
		cfg.expD = dC
		dU, dR = dC, dC
	}
	env := zzNewEnv(cfg)
	c := env.c
	t0 := zzTime("t0")
	env.clk.now = t0
	c.Set(1, 10)
	probe := zzTime("probe")
	// the clock value MaxInt64 is the cache's own "unreachable" sentinel; probes stay below it
	vAssume(probe < int64(^uint64(0)>>1))
	cx := cfg.expC // custom calculator: it must be consulted once per operation, with the entry being written or read
	if cx != nil {
		vAssert(cx.nCreate == 1 && cx.nUpdate == 0 && cx.nRead == 0, "c12.calculator.create_consulted_once")
		vAssert(cx.lastKey == 1 && cx.lastVal == 10 && cx.lastSnap == t0, "c12.calculator.create_sees_the_new_entry")
	}
	if op == 0 {
		vAssume(probe >= t0)
		zzCheckDeadline(env, 1, t0, dC, probe, "c12.create")
		if vParam("canary") == 1 {
			e, _ := c.GetEntryQuietly(1)
			vAssert(e.ExpiresAtNano != t0+int64(dC) || dC < 1000, "c12.canary")
		}
		return
	}
	t1 := zzTime("t1")
	vAssume(t1 >= t0)
	vAssume(zzAddOK(t0, dC))
	env.clk.now = t1
	vAssume(probe >= t1)
	if op == 1 && t1 >= t0+int64(dC) {
		// a write over an entry whose deadline has been reached (expired, not swept) is a creation
		c.Set(1, 11)
		zzCheckDeadline(env, 1, t1, dC, probe, "c12.write_over_expired_is_a_create")
		return
	}
	// the entry must still be alive at t1 for the hooks below to apply
	vAssume(t1 < t0+int64(dC))
	switch op {
	case 1:
		c.Set(1, 11)
		if cx != nil {
			vAssert(cx.nCreate == 1 && cx.nUpdate == 1 && cx.nRead == 0, "c12.calculator.update_consulted_once")
			vAssert(cx.lastKey == 1 && cx.lastVal == 11 && cx.lastOld == 10 && cx.lastSnap == t1, "c12.calculator.update_sees_new_entry_and_old_value")
		}
		switch cfg.expiry {
		case zzExpCreating:
			zzCheckDeadline(env, 1, t0, dC, probe, "c12.update.creation_only_keeps")
		default:
			zzCheckDeadline(env, 1, t1, dU, probe, "c12.update")
		}
	case 2:
		v, ok := c.GetIfPresent(1)
		vAssert(ok && v == 10, "c12.read.hit")
		if cx != nil {
			vAssert(cx.nCreate == 1 && cx.nUpdate == 0 && cx.nRead == 1, "c12.calculator.read_consulted_once")
			vAssert(cx.lastKey == 1 && cx.lastVal == 10 && cx.lastSnap == t1, "c12.calculator.read_sees_the_entry")
		}
		switch cfg.expiry {
		case zzExpCreating, zzExpWriting:
			zzCheckDeadline(env, 1, t0, dC, probe, "c12.read.keeps")
		default:
			zzCheckDeadline(env, 1, t1, dR, probe, "c12.read")
		}
	case 3:
		d := zzDur("dOverride")
		c.SetExpiresAfter(1, d)
		zzCheckDeadline(env, 1, t1, d, probe, "c12.override")
	case 4:
		v, ok := c.SetIfAbsent(1, 12)
		vAssert(!ok && v == 10, "c12.setifabsent.hit")
		switch cfg.expiry {
		case zzExpCreating, zzExpWriting:
			zzCheckDeadline(env, 1, t0, dC, probe, "c12.setifabsent.keeps")
		default:
			zzCheckDeadline(env, 1, t1, dR, probe, "c12.setifabsent")
		}
	}
}

func zzCheckRefresh(env *zzEnv, key int, now int64, d time.Duration, tag string) {
	e, ok := env.c.GetEntryQuietly(key)
	vAssert(ok, tag+".present")
	if zzAddOK(now, d) {
		vAssert(e.RefreshableAtNano == now+int64(d), tag+".exact")
	} else {
		// effectively never: not due at any representable time
		vAssert(e.RefreshableAtNano >= now, tag+".never_due_when_sum_overflows")
	}
}

func ZZ_C12_Refresh() {
	cfg := zzCfgFromParams()
	op := vParam("op") // 0 create, 1 update, 2 SetRefreshableAfter
	dC, dU := zzDur("dCreate"), zzDur("dUpdate")
	switch cfg.refresh {
	case zzRefCustom:
		cfg.refC = &zzCustomRefresh{create: dC, update: dU, reload: dU, fail: dU}
	default:
		cfg.refD = dC
		dU = dC
	}
	env := zzNewEnv(cfg)
	c := env.c
	t0 := zzTime("t0")
	env.clk.now = t0
	c.Set(1, 10)
	if op == 0 {
		zzCheckRefresh(env, 1, t0, dC, "c12.refresh.create")
		return
	}
	t1 := zzTime("t1")
	vAssume(t1 >= t0)
	env.clk.now = t1
	switch op {
	case 1:
		c.Set(1, 11)
		if cfg.refresh == zzRefCreating {
			zzCheckRefresh(env, 1, t0, dC, "c12.refresh.update.creation_only_keeps")
		} else {
			zzCheckRefresh(env, 1, t1, dU, "c12.refresh.update")
		}
	case 2:
		d := zzDur("dOverride")
		c.SetRefreshableAfter(1, d)
		zzCheckRefresh(env, 1, t1, d, "c12.refresh.override")
	}
}
