package otter

// Shared harness pieces: manual clock, executors, event log, cache construction from job parameters.

import (
	"time"

	"github.com/maypok86/otter/v2/stats"
)

type zzClock struct {
	now int64
}

func (c *zzClock) NowNano() int64                      { return c.now }
func (c *zzClock) Tick(d time.Duration) <-chan time.Time { return nil }

// zzExec is a legal executor: sync runs the task at once; deferred queues it until Run is called.
type zzExec struct {
	deferred bool
	q        []func()
	handed   int
}

func (e *zzExec) exec(fn func()) {
	e.handed++
	if e.deferred {
		e.q = append(e.q, fn)
		return
	}
	fn()
}

func (e *zzExec) Run() {
	for len(e.q) > 0 {
		fn := e.q[0]
		e.q = e.q[1:]
		fn()
	}
}

type zzEvent struct {
	key   int
	val   int
	cause DeletionCause
	w     uint32 // model side only: weight of the removed entry
}

type zzEvents struct {
	atomic []zzEvent
	plain  []zzEvent
}

const (
	zzExpNone = iota
	zzExpCreating
	zzExpWriting
	zzExpAccessing
	zzExpCustom
)

const (
	zzRefNone = iota
	zzRefCreating
	zzRefWriting
	zzRefCustom
)

// zzCustomExpiry is a user calculator with three independent durations; it records what it was last asked.
type zzCustomExpiry struct {
	create, update, read time.Duration
	nCreate, nUpdate, nRead int
	lastKey, lastVal, lastOld int
	lastSnap                  int64
}

func (c *zzCustomExpiry) ExpireAfterCreate(e Entry[int, int]) time.Duration {
	c.nCreate++
	c.lastKey, c.lastVal, c.lastSnap = e.Key, e.Value, e.SnapshotAtNano
	return c.create
}
func (c *zzCustomExpiry) ExpireAfterUpdate(e Entry[int, int], old int) time.Duration {
	c.nUpdate++
	c.lastKey, c.lastVal, c.lastOld, c.lastSnap = e.Key, e.Value, old, e.SnapshotAtNano
	return c.update
}
func (c *zzCustomExpiry) ExpireAfterRead(e Entry[int, int]) time.Duration {
	c.nRead++
	c.lastKey, c.lastVal, c.lastSnap = e.Key, e.Value, e.SnapshotAtNano
	return c.read
}

type zzCustomRefresh struct {
	create, update, reload, fail time.Duration
	nCreate, nUpdate, nReload, nFail int
	lastVal, lastOld                 int
	lastErr                          error
}

func (c *zzCustomRefresh) RefreshAfterCreate(e Entry[int, int]) time.Duration {
	c.nCreate++
	c.lastVal = e.Value
	return c.create
}
func (c *zzCustomRefresh) RefreshAfterUpdate(e Entry[int, int], old int) time.Duration {
	c.nUpdate++
	c.lastVal, c.lastOld = e.Value, old
	return c.update
}
func (c *zzCustomRefresh) RefreshAfterReload(e Entry[int, int], old int) time.Duration {
	c.nReload++
	c.lastVal, c.lastOld = e.Value, old
	return c.reload
}
func (c *zzCustomRefresh) RefreshAfterReloadFailure(e Entry[int, int], err error) time.Duration {
	c.nFail++
	c.lastVal, c.lastErr = e.Value, err
	return c.fail
}

type zzCfg struct {
	expiry   int
	refresh  int
	bound    int // 0 unbounded, 1 MaximumSize, 2 MaximumWeight
	max      int
	deferred bool
	icap     int
	stats    bool
	// durations (symbolic or concrete, chosen by the harness)
	expD     time.Duration
	expC     *zzCustomExpiry
	refD     time.Duration
	refC     *zzCustomRefresh
	weigher  func(k, v int) uint32
}

type zzEnv struct {
	c     *Cache[int, int]
	clk   *zzClock
	ex    *zzExec
	ev    *zzEvents
	ctr   *stats.Counter
	cfg   zzCfg
}

func zzCfgFromParams() zzCfg {
	return zzCfg{
		expiry:   vParam("expiry"),
		refresh:  vParam("refresh"),
		bound:    vParam("bound"),
		max:      vParam("max"),
		deferred: vParam("deferred") == 1,
		icap:     vParam("icap"),
		stats:    vParam("stats") == 1,
	}
}

func zzNewEnv(cfg zzCfg) *zzEnv {
	env := &zzEnv{clk: &zzClock{}, ex: &zzExec{deferred: cfg.deferred}, ev: &zzEvents{}, cfg: cfg}
	o := &Options[int, int]{
		Clock:    env.clk,
		Executor: env.ex.exec,
		Logger:   &NoopLogger{},
		OnAtomicDeletion: func(e DeletionEvent[int, int]) {
			env.ev.atomic = append(env.ev.atomic, zzEvent{key: e.Key, val: e.Value, cause: e.Cause})
		},
		OnDeletion: func(e DeletionEvent[int, int]) {
			env.ev.plain = append(env.ev.plain, zzEvent{key: e.Key, val: e.Value, cause: e.Cause})
		},
		InitialCapacity: cfg.icap,
	}
	switch cfg.bound {
	case 1:
		o.MaximumSize = cfg.max
	case 2:
		o.MaximumWeight = uint64(cfg.max)
		o.Weigher = cfg.weigher
		if o.Weigher == nil {
			o.Weigher = func(k, v int) uint32 { return 1 }
		}
	}
	switch cfg.expiry {
	case zzExpCreating:
		o.ExpiryCalculator = ExpiryCreating[int, int](cfg.expD)
	case zzExpWriting:
		o.ExpiryCalculator = ExpiryWriting[int, int](cfg.expD)
	case zzExpAccessing:
		o.ExpiryCalculator = ExpiryAccessing[int, int](cfg.expD)
	case zzExpCustom:
		o.ExpiryCalculator = cfg.expC
	}
	switch cfg.refresh {
	case zzRefCreating:
		o.RefreshCalculator = RefreshCreating[int, int](cfg.refD)
	case zzRefWriting:
		o.RefreshCalculator = RefreshWriting[int, int](cfg.refD)
	case zzRefCustom:
		o.RefreshCalculator = cfg.refC
	}
	if cfg.stats {
		env.ctr = stats.NewCounter()
		o.StatsRecorder = env.ctr
	}
	c, err := New(o)
	if err != nil {
		panic(err)
	}
	env.c = c
	return env
}

// zzAddOK reports whether now+d is representable (no int64 overflow); both non-negative.
func zzAddOK(now int64, d time.Duration) bool {
	return now <= int64(^uint64(0)>>1)-int64(d)
}

// hashmapGetQuiet reads the table without side effects (physical presence, expired or not).
func (c *cache[K, V]) hashmapGetQuiet(key K) (V, bool) {
	n := c.hashmap.Get(key)
	if n == nil {
		var z V
		return z, false
	}
	return n.Value(), true
}
