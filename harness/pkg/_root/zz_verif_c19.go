package otter

// C19 — saving and reloading a cache reproduces its live contents and deadlines.
// gob is stubbed as a FIFO of values (DESIGN 3.5); the real SaveCacheTo/LoadCacheFrom/Hottest/
// evictionOrder/xiter code runs. Unbounded configurations use symbolic clock readings and durations;
// size- and weight-bounded ones (maintenance inside SaveCacheTo) use concrete times and symbolic weights.

import "bytes"

func init() {
	vRegister("ZZ_C19_SaveLoad", ZZ_C19_SaveLoad)
}


func ZZ_C19_SaveLoad() {
	cfg := zzCfgFromParams()
	conc := cfg.bound != 0
	var ws [8]uint32
	if cfg.bound == 2 {
		for i := range ws {
			ws[i] = vU32("w")
		}
		cfg.weigher = func(k, v int) uint32 { return ws[(v-100)&7] }
	}
	s := zzNewSeqD(cfg, "c19", conc)
	s.zzStart(conc)
	if !conc {
		// stated bound of the symbolic-clock family: clock readings and durations below 2^40 ns (~18 min .. 12 days
		// is covered by the concrete family's offsets; the overflow corner is C12's subject)
		lim := int64(1) << 40
		vAssume(s.env.clk.now < lim && int64(s.dC) < lim && int64(s.dU) < lim && int64(s.dR) < lim && int64(s.rC) < lim && int64(s.rU) < lim)
		s.narrow = true
	}
	nset := vParam("nset")
	lean := vParam("lean") == 1 // distinct keys 1..nset, no clock movement: only the weights vary (symbolic)
	for i := 0; i < nset; i++ {
		if i > 0 && conc && !lean {
			s.zzAdvance(conc) // symbolic-clock family: all writes at t0 (one symbolic advance before save, one before load)
		}
		k := i + 1
		if !lean {
			k = 1 + vChoice("key", zzNK)
		}
		s.step(zzOpSet, k, "c19.build")
	}
	if vParam("override") == 1 && s.withExp() {
		s.step(zzOpSetExpiresAfter, 1, "c19.build")
	}
	if vParam("roverride") == 1 && s.withRef() {
		// a per-entry refresh override of arbitrary length: the refresh deadline may lie at or after the expiration deadline
		s.step(zzOpSetRefreshableAfter, 1, "c19.build")
	}
	if !lean {
		s.zzAdvance(conc) // one entry may already be expired at save time
	}
	// what the source holds at save time (weights as the source recorded them)
	src := s.m
	saveNow := s.now()
	var srcTotal uint64
	for k := 1; k <= zzNK; k++ {
		if src[k].exists && src[k].exp > saveNow {
			srcTotal += uint64(src[k].w)
		}
	}
	buf := &bytes.Buffer{} // the engine stubs gob as a FIFO keyed by this object; natively it is a real gob stream
	err := SaveCacheTo(s.env.c, buf)
	vAssert(err == nil, "c19.save_ok")

	// target cache of the same configuration, clock offset by a symbolic (or chosen) delta
	tcfg := s.env.cfg
	tmaxSel := vParam("tmax") // 0 same, 1 smaller, 2 larger
	switch tmaxSel {
	case 1:
		tcfg.max = tcfg.max / 2
	case 2:
		tcfg.max = tcfg.max * 2
	}
	t := &zzSeq{tag: "c19t"}
	t.dC, t.dU, t.dR, t.rC, t.rU = s.dC, s.dU, s.dR, s.rC, s.rU
	t.env = zzNewEnv(tcfg)
	t.maximum = uint64(tcfg.max)
	t.env.clk.now = s.now()
	if !lean {
		t.zzAdvance(conc) // clock offset between save and load
	}
	loadNow := t.now()
	err = LoadCacheFrom(t.env.c, buf)
	vAssert(err == nil, "c19.load_ok")
	if tcfg.bound != 0 {
		t.env.c.CleanUp()
	}

	fits := tcfg.bound == 0 || srcTotal <= uint64(tcfg.max)
	var tgtTotal uint64
	for k := 1; k <= zzNK; k++ {
		e, ok := t.env.c.GetEntryQuietly(k)
		live := src[k].exists && src[k].exp > loadNow && src[k].exp > saveNow
		if !live {
			vAssert(!ok, "c19.absent_or_expired_not_loaded")
			continue
		}
		if ok {
			tgtTotal += uint64(e.Weight)
			vAssert(e.Value == src[k].val, "c19.value")
			if tcfg.bound == 2 {
				vAssert(e.Weight == src[k].w, "c19.weight")
			}
			if s.withExp() {
				if src[k].exp == zzMaxI64 {
					// pinned entry (deadline saturated to the "unreachable" sentinel)
					vAssert(e.ExpiresAtNano == src[k].exp, "c19.expires_at.pinned_entry")
				} else {
					vAssert(e.ExpiresAtNano == src[k].exp, "c19.expires_at")
				}
			}
			if s.withRef() {
				if src[k].ref == zzMaxI64 {
					// refresh pinned to "never" (deadline saturated to the "unreachable" sentinel)
					vAssert(e.RefreshableAtNano == src[k].ref, "c19.refreshable_at.pinned_entry")
				} else if src[k].ref > loadNow {
					vAssert(e.RefreshableAtNano == src[k].ref, "c19.refreshable_at")
				} else {
					vAssert(e.RefreshableAtNano <= loadNow+1, "c19.due_entries_loaded_as_due")
				}
			}
		}
		if fits {
			vAssert(ok, "c19.everything_loaded_when_it_fits")
		}
	}
	if tcfg.bound != 0 {
		vAssert(tgtTotal <= uint64(tcfg.max), "c19.target_within_its_bound")
	}
	if vParam("canary") == 1 {
		_, ok := t.env.c.GetEntryQuietly(1)
		vAssert(!ok, "c19.canary")
	}
}
