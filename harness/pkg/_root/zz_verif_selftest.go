package otter

// Translator self-test scenarios (package otter): deterministic scripts built from the repository's own test
// inputs. The engine interprets them without symbols; the native build runs them; the vTrace logs must be identical.

import (
	"context"
	"time"

	"github.com/maypok86/otter/v2/stats"
)

func init() {
	vRegister("ZZ_Selftest_Sketch", ZZ_Selftest_Sketch)
	vRegister("ZZ_Selftest_Cache", ZZ_Selftest_Cache)
}

// sketch_test.go shapes: construct, ensureCapacity smaller/larger, increment once/max/distinct/zero, reset, heavy hitters.
func ZZ_Selftest_Sketch() {
	s := newSketch[int]()
	s.increment(7)
	vTrace("uninit.freq", s.frequency(7))
	s.ensureCapacity(512)
	vTrace("len", uint64(len(s.table)))
	vTrace("sample", s.sampleSize)
	vTrace("mask", s.blockMask)
	s.ensureCapacity(256)
	vTrace("len.after.smaller", uint64(len(s.table)))
	s.increment(1)
	vTrace("once", s.frequency(1))
	for i := 0; i < 20; i++ {
		s.increment(2)
	}
	vTrace("max", s.frequency(2))
	s.increment(10)
	s.increment(11)
	vTrace("d10", s.frequency(10))
	vTrace("d11", s.frequency(11))
	vTrace("d12", s.frequency(12))
	s.increment(0)
	vTrace("zero", s.frequency(0))
	// heavy hitters (sketch_test.go TestSketch_HeavyHitters shape, scaled down)
	h := newSketch[int]()
	h.ensureCapacity(64)
	for i := 100; i < 140; i++ {
		h.increment(i)
	}
	for i := 0; i < 10; i += 2 {
		for j := 0; j < i; j++ {
			h.increment(i)
		}
	}
	for i := 0; i < 10; i++ {
		vTrace("hh", h.frequency(i))
	}
	vTrace("hh.size", h.size)
	// reset (TestSketch_Reset shape): increments until the sample is exhausted
	r := newSketch[int]()
	r.ensureCapacity(8)
	reset := false
	for i := 1; i < 200; i++ {
		r.increment(i)
		if r.size != uint64(i) {
			reset = true
			vTrace("reset.at", uint64(i))
			break
		}
	}
	if reset {
		vTrace("reset.size", r.size)
	}
	for i := 1; i < 12; i++ {
		vTrace("after.reset", r.frequency(i))
	}
	ensure := newSketch[int]()
	ensure.ensureCapacity(100) // non power of two
	vTrace("np2.len", uint64(len(ensure.table)))
	vTrace("np2.sample", ensure.sampleSize)
}

// cache_test.go shapes: eviction with a maximum, write-expiry with a manual clock, invalidation, loader, stats, events.
func ZZ_Selftest_Cache() {
	clk := &zzClock{now: 1 << 40}
	ctr := stats.NewCounter()
	var ev []zzEvent
	c := Must(&Options[int, int]{
		MaximumSize:      5,
		Clock:            clk,
		Executor:         func(fn func()) { fn() },
		Logger:           &NoopLogger{},
		StatsRecorder:    ctr,
		ExpiryCalculator: ExpiryWriting[int, int](10 * time.Second),
		OnDeletion: func(e DeletionEvent[int, int]) {
			ev = append(ev, zzEvent{key: e.Key, val: e.Value, cause: e.Cause})
		},
	})
	for i := 0; i < 8; i++ {
		v, ok := c.Set(i, i*10)
		vTrace("set.v", uint64(v))
		if ok {
			vTrace("set.ok", 1)
		} else {
			vTrace("set.ok", 0)
		}
		if i%2 == 0 {
			c.GetIfPresent(i)
			c.GetIfPresent(i)
		}
	}
	c.CleanUp()
	vTrace("size", uint64(c.EstimatedSize()))
	for i := 0; i < 8; i++ {
		v, ok := c.GetIfPresent(i)
		if ok {
			vTrace("get", uint64(v))
		} else {
			vTrace("get.miss", uint64(i))
		}
	}
	clk.now += int64(4 * time.Second)
	c.Set(1, 11)
	v, ok := c.Invalidate(2)
	vTrace("inv.v", uint64(v))
	if ok {
		vTrace("inv.ok", 1)
	}
	got, err := c.Get(context.Background(), 42, LoaderFunc[int, int](func(ctx context.Context, k int) (int, error) { return k + 1, nil }))
	vTrace("load", uint64(got))
	if err != nil {
		vTrace("load.err", 1)
	}
	clk.now += int64(7 * time.Second) // the first writes are past their deadline now
	c.CleanUp()
	vTrace("size.after.expiry", uint64(c.EstimatedSize()))
	for k, v := range c.All() {
		vTrace("all", uint64(k*1000+v))
	}
	for e := range c.Coldest() {
		vTrace("coldest", uint64(e.Key))
	}
	clk.now += int64(30 * time.Second)
	c.CleanUp()
	vTrace("size.end", uint64(c.EstimatedSize()))
	for _, e := range ev {
		vTrace("event", uint64(e.key*100000+e.val*10+int(e.cause)))
	}
	st := ctr.Snapshot()
	vTrace("hits", st.Hits)
	vTrace("misses", st.Misses)
	vTrace("evictions", st.Evictions)
	vTrace("loads", st.LoadSuccesses)
	c.SetMaximum(1)
	vTrace("size.max1", uint64(c.EstimatedSize()))
	vTrace("max", c.GetMaximum())
}
