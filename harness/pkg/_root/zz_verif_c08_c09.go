package otter

// C08 — loads are single-flight and every waiter terminates. C09 — a load never overwrites a newer write.
// (B): callers, writers and (for Refresh) the default executor's goroutine are engine threads; the loader is a
// harness closure that is itself a scheduling point at entry and exit and logs its interval with a logical clock.

import (
	"context"
	"errors"
	"sync/atomic"
	"time"
)

func init() {
	vRegister("ZZ_C08_SingleFlight", ZZ_C08_SingleFlight)
	vRegister("ZZ_C09_LoadVsWrite", ZZ_C09_LoadVsWrite)
}

type zzTick struct{ t int }

func (c *zzTick) now() (r int) {
	vAtomic(func() { c.t++; r = c.t })
	return
}

type zzIval struct{ in, out int }

func ZZ_C08_SingleFlight() {
	outcome := vChoice("outcome", 4) // 0 value, 1 error, 2 not found, 3 panic
	outs := []string{"value", "error", "notfound", "panic"}
	vScenario("loader=" + outs[outcome])
	c := Must(&Options[int, int]{Logger: &NoopLogger{}})
	clk := &zzTick{}
	var ivals []zzIval
	loader := LoaderFunc[int, int](func(ctx context.Context, key int) (int, error) {
		in := clk.now()
		vYield()
		idx := 0
		vAtomic(func() { ivals = append(ivals, zzIval{in: in}); idx = len(ivals) - 1 })
		vYield()
		out := clk.now()
		vAtomic(func() { ivals[idx].out = out })
		switch outcome {
		case 0:
			return 500 + idx, nil
		case 1:
			return 0, zzErrLoad
		case 2:
			return 0, ErrNotFound
		}
		panic("zz loader boom")
	})
	type res struct {
		v        int
		err      error
		panicked bool
		done     bool
	}
	n := vParam("callers")
	rs := make([]res, n)
	caller := func(i int) func() {
		return func() {
			rs[i].panicked = vExpectPanic(func() {
				rs[i].v, rs[i].err = c.Get(context.Background(), 1, loader)
			})
			rs[i].done = true
		}
	}
	if n == 2 {
		vPar(caller(0), caller(1))
	} else {
		vPar(caller(0), caller(1), caller(2))
	}
	// every caller terminated (a blocked waiter would be reported by the engine as a deadlock)
	for i := 0; i < n; i++ {
		vAssert(rs[i].done, "c08.every_caller_returns")
	}
	// loader invocations for the key never overlap in time (nothing wrote, invalidated or evicted the key)
	for i := 0; i < len(ivals); i++ {
		for j := i + 1; j < len(ivals); j++ {
			vAssert(ivals[i].out < ivals[j].in || ivals[j].out < ivals[i].in, "c08.loader_invocations_do_not_overlap")
		}
	}
	vAssert(len(ivals) >= 1 && len(ivals) <= n, "c08.loader_invocation_count")
	if outcome == 0 {
		// everybody gets the value of a load that ran (a caller whose lookup missed before an earlier load was
		// installed may load again, but never concurrently: checked by the non-overlap assertion above)
		for i := 0; i < n; i++ {
			vAssert(!rs[i].panicked && rs[i].err == nil && rs[i].v >= 500 && rs[i].v < 500+len(ivals), "c08.waiters_receive_the_inflight_result")
		}
	}
	npanic := 0
	for i := 0; i < n; i++ {
		switch outcome {
		case 1:
			vAssert(!rs[i].panicked && rs[i].err == zzErrLoad, "c08.error_reaches_every_caller")
		case 2:
			vAssert(!rs[i].panicked && errors.Is(rs[i].err, ErrNotFound), "c08.notfound_reaches_every_caller")
		case 3:
			if rs[i].panicked {
				npanic++
			} else {
				vAssert(rs[i].err != nil, "c08.waiter_of_a_panicked_load_gets_an_error")
			}
		}
	}
	if outcome == 3 {
		vAssert(npanic == len(ivals), "c08.panic_surfaces_in_each_loading_caller")
	}
	// no in-flight record left behind: a later Get loads afresh (unless the value was cached)
	vAssert(c.cache.singleflight.getCall(1) == nil, "c08.no_inflight_record_left")
	before := len(ivals)
	outcome = 0
	v, err := c.Get(context.Background(), 1, loader)
	if before >= 1 && len(ivals) == before {
		vAssert(err == nil && v >= 500 && v < 500+before, "c08.later_get_served_from_cache_only_after_success")
	} else {
		vAssert(len(ivals) == before+1 && err == nil, "c08.later_get_loads_afresh")
	}
	if vParam("canary") == 1 {
		vAssert(len(ivals) == 0, "c08.canary")
	}
}

func ZZ_C09_LoadVsWrite() {
	wop := vChoice("writer", 5) // 0 Set, 1 SetIfAbsent, 2 Compute->Write, 3 Compute->Invalidate, 4 Invalidate
	wnames := []string{"Set", "SetIfAbsent", "ComputeWrite", "ComputeInvalidate", "Invalidate"}
	mode := vParam("mode") // 0 Get on an absent key, 1 Refresh of a present key (reload on the executor's goroutine)
	vScenario(wnames[wop])
	o := &Options[int, int]{Logger: &NoopLogger{}}
	if mode == 1 {
		o.RefreshCalculator = RefreshWriting[int, int](1 << 40)
	}
	// mode 2: Get on a key whose entry has expired but has not been swept (write-reset expiry, manual clock, queueing
	// executor so that no maintenance runs during the race): abstractly the key is absent, physically its node is
	// still in the table when the load starts and when the writer arrives
	var mclk *zzClock
	var lex *zzLockedExec
	if mode == 2 {
		mclk = &zzClock{now: 1 << 32}
		lex = &zzLockedExec{}
		o.Clock = mclk
		o.Executor = lex.exec
		o.ExpiryCalculator = ExpiryWriting[int, int](1000)
	}
	c := Must(o)
	vDaemons() // mode 2: periodicCleanUp waits for a ticker the manual clock never fires
	clk := &zzTick{}
	const loaded, written, initial = 900, 700, 300
	if mode == 1 || mode == 2 {
		c.Set(1, initial)
	}
	if mode == 2 {
		mclk.now += 1000
	}
	loadStart, loadCalls := 0, 0
	ld := LoaderFunc[int, int](func(ctx context.Context, key int) (int, error) {
		loadStart = clk.now()
		loadCalls++
		vYield()
		return loaded, nil
	})
	var lv int
	var lerr error
	w0, w1, lret := 0, 0, 0
	var wv int
	var wok bool
	l0 := 0
	L := func() {
		l0 = clk.now()
		if mode == 0 || mode == 2 {
			lv, lerr = c.Get(context.Background(), 1, ld)
		} else {
			r := <-c.Refresh(context.Background(), 1, ld)
			lv, lerr = r.Value, r.Err
		}
		lret = clk.now()
	}
	W := func() {
		w0 = clk.now()
		switch wop {
		case 0:
			c.Set(1, written)
		case 1:
			wv, wok = c.SetIfAbsent(1, written)
		case 2:
			c.Compute(1, func(old int, found bool) (int, ComputeOp) { return written, WriteOp })
		case 3:
			c.Compute(1, func(old int, found bool) (int, ComputeOp) { return 0, InvalidateOp })
		case 4:
			c.Invalidate(1)
		}
		w1 = clk.now()
	}
	vPar(L, W)
	if mode == 2 {
		// pending maintenance must not change the outcome either
		if vChoice("maint", 2) == 1 {
			lex.run()
			c.CleanUp()
			lex.run()
		}
	}
	e, present := c.GetEntryQuietly(1)
	final := -1
	if present {
		final = e.Value
	}
	if loadCalls == 1 {
		vAssert(lerr == nil && lv == loaded, "c09.caller_receives_loaded_value")
	}
	writesValue := wop == 0 || wop == 2
	removes := wop == 3 || wop == 4
	switch {
	case loadCalls == 1 && w0 > loadStart:
		// W was called while the load was in flight, or after it: W's effect stands, never the older loaded value
		switch {
		case writesValue:
			vAssert(final == written, "c09.explicit_write_survives_the_load")
		case removes:
			vAssert(!present, "c09.invalidation_survives_the_load")
		default: // SetIfAbsent
			if wok {
				vAssert(final == written, "c09.setifabsent_insert_survives_the_load")
			} else {
				// it found a value and wrote nothing: not a write, the load may still install
				vAssert(final == wv || final == loaded, "c09.setifabsent_kept_existing")
			}
		}
	case loadCalls == 1 && w1 < l0:
		// W finished before the loading call was even made: the loaded value is installed
		vAssert(final == loaded, "c09.load_after_write_installs")
	case loadCalls == 0:
		// the Get found W's value in the cache and did not load
		vAssert(mode != 1 && final == written && lv == written, "c09.no_load_when_present")
	}
	_ = lret
	vAssert(c.cache.singleflight.getCall(1) == nil, "c09.no_inflight_record_left")
	if vParam("canary") == 1 {
		vAssert(final != written, "c09.canary")
	}
}

func init() { vRegister("ZZ_C08_Mixed", ZZ_C08_Mixed) }

// ZZ_C08_Mixed: a single Get of key 1 racing with a BulkGet of keys {1,2} (and optionally a second BulkGet of {2,1}):
// per key the loader invocations never overlap, every caller returns, bulk outcomes full / partial / error / panic
// release every waiter and leave no in-flight record behind.
func ZZ_C08_Mixed() {
	bout := vChoice("bulk", 4) // 0 full, 1 partial (key 1 missing), 2 error, 3 panic
	bnames := []string{"full", "partial", "error", "panic"}
	vScenario("bulk=" + bnames[bout])
	c := Must(&Options[int, int]{Logger: &NoopLogger{}})
	clk := &zzTick{}
	var iv [3][]zzIval // per key
	enter := func(k int) int {
		t := clk.now()
		idx := 0
		vAtomic(func() { iv[k] = append(iv[k], zzIval{in: t}); idx = len(iv[k]) - 1 })
		return idx
	}
	leave := func(k, idx int) {
		t := clk.now()
		vAtomic(func() { iv[k][idx].out = t })
	}
	single := LoaderFunc[int, int](func(ctx context.Context, key int) (int, error) {
		i := enter(key)
		vYield()
		leave(key, i)
		return 1000 + key, nil
	})
	bulk := BulkLoaderFunc[int, int](func(ctx context.Context, keys []int) (map[int]int, error) {
		idx := make([]int, len(keys))
		for j, k := range keys {
			idx[j] = enter(k)
		}
		vYield()
		for j, k := range keys {
			leave(k, idx[j])
		}
		if bout == 3 {
			panic("zz bulk boom")
		}
		res := map[int]int{}
		for _, k := range keys {
			if !(bout == 1 && k == 1) {
				res[k] = 2000 + k
			}
		}
		if bout == 2 {
			return res, zzErrLoad
		}
		return res, nil
	})
	var gv int
	var gerr error
	var bres map[int]int
	var berr error
	var gp, bp, gd, bd bool
	vPar(func() {
		gp = vExpectPanic(func() { gv, gerr = c.Get(context.Background(), 1, single) })
		gd = true
	}, func() {
		bp = vExpectPanic(func() { bres, berr = c.BulkGet(context.Background(), []int{1, 2}, bulk) })
		bd = true
	})
	vAssert(gd && bd, "c08m.every_caller_returns")
	for k := 1; k <= 2; k++ {
		for i := 0; i < len(iv[k]); i++ {
			for j := i + 1; j < len(iv[k]); j++ {
				vAssert(iv[k][i].out < iv[k][j].in || iv[k][j].out < iv[k][i].in, "c08m.loader_invocations_for_a_key_do_not_overlap")
			}
		}
	}
	if !gp {
		// the single caller gets a value that some load produced for key 1, or the bulk load's failure it joined
		if gerr == nil {
			vAssert(gv == 1001 || gv == 2001, "c08m.single_caller_gets_a_loaded_value")
		}
	}
	if !bp && berr == nil {
		if v, ok := bres[2]; ok {
			vAssert(v == 2002, "c08m.bulk_result_value")
		}
		if v, ok := bres[1]; ok {
			vAssert(v == 1001 || v == 2001, "c08m.bulk_gets_inflight_or_own_value")
		}
	}
	if bout == 3 {
		vAssert(bp || len(iv[2]) == 0, "c08m.bulk_panic_surfaces_in_the_bulk_caller")
	}
	vAssert(c.cache.singleflight.getCall(1) == nil && c.cache.singleflight.getCall(2) == nil, "c08m.no_inflight_record_left")
	// later Gets terminate and load afresh where nothing was cached
	v2, err2 := c.Get(context.Background(), 2, single)
	vAssert(err2 == nil && (v2 == 1002 || v2 == 2002), "c08m.later_get_terminates")
}

func init() { vRegister("ZZ_C08_Retry", ZZ_C08_Retry) }

// zzIdxErr is a loader failure that remembers which loader invocation produced it.
type zzIdxErr struct {
	idx      int
	notFound bool
}

func (e *zzIdxErr) Error() string { return "zz: load failed" }
func (e *zzIdxErr) Unwrap() error {
	if e.notFound {
		return ErrNotFound
	}
	return nil
}

// ZZ_C08_Retry: two callers, each calling Get twice in a row on the same key, with a loader that fails (error or
// not-found) with a failure that identifies its invocation. "A failing load leaves no in-flight record behind, so a later
// Get loads afresh": once any caller has been handed the failure of invocation i, a Get that starts afterwards never
// returns the failure of invocation i again.
func ZZ_C08_Retry() {
	nf := vChoice("outcome", 2) == 1
	if nf {
		vScenario("loader=notfound")
	} else {
		vScenario("loader=error")
	}
	c := Must(&Options[int, int]{Logger: &NoopLogger{}})
	clk := &zzTick{}
	ninv := 0
	loader := LoaderFunc[int, int](func(ctx context.Context, key int) (int, error) {
		idx := 0
		vAtomic(func() { idx = ninv; ninv++ })
		vYield()
		return 0, &zzIdxErr{idx: idx, notFound: nf}
	})
	type call struct {
		t0, t1 int
		idx    int // invocation whose failure was returned; -1 unknown
		failed bool
	}
	var calls [2][2]call
	caller := func(t int) func() {
		return func() {
			for j := 0; j < 2; j++ {
				cl := &calls[t][j]
				cl.t0 = clk.now()
				_, err := c.Get(context.Background(), 1, loader)
				cl.t1 = clk.now()
				cl.failed = err != nil
				cl.idx = -1
				if ie, ok := err.(*zzIdxErr); ok {
					cl.idx = ie.idx
				}
			}
		}
	}
	vPar(caller(0), caller(1))
	for t := 0; t < 2; t++ {
		for j := 0; j < 2; j++ {
			vAssert(calls[t][j].failed, "c08r.failure_reaches_every_caller")
			if nf {
				vAssert(calls[t][j].idx >= 0 || true, "c08r.reached")
			}
		}
	}
	for a := 0; a < 4; a++ {
		for b := 0; b < 4; b++ {
			x, y := calls[a/2][a%2], calls[b/2][b%2]
			if a != b && x.t1 < y.t0 && x.idx >= 0 {
				vAssert(y.idx != x.idx, "c08r.later_get_loads_afresh_after_a_failed_load")
			}
		}
	}
	vAssert(ninv >= 2 && ninv <= 4, "c08r.loader_invocation_count")
	vAssert(c.cache.singleflight.getCall(1) == nil, "c08r.no_inflight_record_left")
}

func init() { vRegister("ZZ_C09_ReloadVsExpiredInvalidation", ZZ_C09_ReloadVsExpiredInvalidation) }

// zzAClock is a manual clock that one thread may move while others read it.
type zzAClock struct{ now atomic.Int64 }

func (c *zzAClock) NowNano() int64                        { return c.now.Load() }
func (c *zzAClock) Tick(d time.Duration) <-chan time.Time { return nil }

// ZZ_C09_ReloadVsExpiredInvalidation: a cache with write-reset expiry and refresh; a reload of a live entry is in
// flight (manual Refresh, the loader is a scheduling point) when the other
// thread explicitly removes or rewrites the key — InvalidateAll, Invalidate or Set — possibly after the clock has passed
// the entry's deadline (so that the node it meets is expired but not swept). The explicit operation stands: afterwards
// the cache holds nothing (or the written value), never the reloaded one.
func ZZ_C09_ReloadVsExpiredInvalidation() {
	wop := vChoice("writer", 5)
	wnames := []string{"Expire+InvalidateAll", "Expire+Invalidate", "InvalidateAll", "Expire+Set", "Expire+ComputeInvalidate"}
	vScenario(wnames[wop])
	clkm := &zzAClock{}
	clkm.now.Store(1 << 32)
	c := Must(&Options[int, int]{
		Logger:            &NoopLogger{},
		Clock:             clkm,
		ExpiryCalculator:  ExpiryWriting[int, int](1000),
		RefreshCalculator: RefreshWriting[int, int](10),
		// same-goroutine executor: the reload runs in the refreshing thread, maintenance in whoever triggers it (two
		// threads in all; with the default executor the schedule space of five threads did not finish in 15 minutes)
		Executor: func(fn func()) { fn() },
	})
	vDaemons()
	tick := &zzTick{}
	const loaded, written, initial = 900, 700, 300
	c.Set(1, initial)
	c.CleanUp()
	loadStart, loadEnd, loadCalls := 0, 0, 0
	ld := LoaderFunc[int, int](func(ctx context.Context, key int) (int, error) {
		loadStart = tick.now()
		loadCalls++
		vYield()
		loadEnd = tick.now()
		return loaded, nil
	})
	w0, w1 := 0, 0
	L := func() { <-c.Refresh(context.Background(), 1, ld) }
	W := func() {
		defer func() { w1 = tick.now() }()
		w0 = tick.now()
		if wop != 2 {
			clkm.now.Add(1000) // the deadline has been reached
		}
		switch wop {
		case 0, 2:
			c.InvalidateAll()
		case 1:
			c.Invalidate(1)
		case 3:
			c.Set(1, written)
		case 4:
			c.Compute(1, func(old int, found bool) (int, ComputeOp) { return 0, InvalidateOp })
		}
	}
	vPar(L, W)
	e, present := c.GetEntryQuietly(1)
	if loadCalls == 1 && w0 > loadStart {
		// two shapes: the explicit operation ran entirely while the loader was running (it must have cleared the in-flight
		// reload), or it was still running when the loader returned and overlapped the installation
		during := w1 < loadEnd
		switch {
		case wop == 3 && during:
			vAssert(present && e.Value == written, "c09x.write_completed_during_the_reload_survives")
		case wop == 3:
			vAssert(present && e.Value == written, "c09x.write_overlapping_the_installation_survives")
		case during:
			vAssert(!present, "c09x.invalidation_completed_during_the_reload_survives")
		default:
			vAssert(!present, "c09x.invalidation_overlapping_the_installation_survives")
		}
	}
	vAssert(loadCalls <= 1, "c09x.at_most_one_reload")
	vAssert(c.cache.singleflight.getCall(1) == nil, "c09x.no_inflight_record_left")
}

func init() { vRegister("ZZ_C08_RefreshJoin", ZZ_C08_RefreshJoin) }

// ZZ_C08_RefreshJoin: two explicit Refresh calls of one key (optionally a loader-backed Get as the second caller) race;
// the executor runs the reload in the refreshing thread, so the second caller either joins the load in flight or starts
// after it finished. Every Refresh call gets a channel that holds exactly one result once the callers have returned
// (C11), a caller that joined receives the in-flight result, invocations never overlap and nothing is left in flight
// (C08), whatever the loader's outcome.
func ZZ_C08_RefreshJoin() {
	outcome := vChoice("outcome", 3) // 0 value, 1 error, 2 not found
	second := vChoice("second", 2)   // 0 Refresh, 1 Get
	pre := vChoice("pre", 2)
	vScenario([]string{"value", "error", "notfound"}[outcome] + ";second=" + []string{"Refresh", "Get"}[second] + ";pre=" + []string{"absent", "present"}[pre])
	c := Must(&Options[int, int]{
		Logger:            &NoopLogger{},
		RefreshCalculator: RefreshWriting[int, int](1 << 40),
		Executor:          func(fn func()) { fn() },
	})
	const initial = 300
	if pre == 1 {
		c.Set(1, initial)
	}
	clk := &zzTick{}
	var ivals []zzIval
	body := func() (int, error) {
		in := clk.now()
		idx := 0
		vAtomic(func() { ivals = append(ivals, zzIval{in: in}); idx = len(ivals) - 1 })
		vYield()
		out := clk.now()
		vAtomic(func() { ivals[idx].out = out })
		switch outcome {
		case 0:
			return 500 + idx, nil
		case 1:
			return 0, zzErrLoad
		}
		return 0, ErrNotFound
	}
	ld := &zzFnLoader{load: body, reload: body}
	var chs [2]<-chan RefreshResult[int, int]
	var gv int
	var gerr error
	var done [2]bool
	A := func() { chs[0] = c.Refresh(context.Background(), 1, ld); done[0] = true }
	B := func() {
		if second == 0 {
			chs[1] = c.Refresh(context.Background(), 1, ld)
		} else {
			gv, gerr = c.Get(context.Background(), 1, ld)
		}
		done[1] = true
	}
	vPar(A, B)
	vAssert(done[0] && done[1], "c08j.every_caller_returns")
	for i := 0; i < len(ivals); i++ {
		for j := i + 1; j < len(ivals); j++ {
			vAssert(ivals[i].out < ivals[j].in || ivals[j].out < ivals[i].in, "c08j.loader_invocations_do_not_overlap")
		}
	}
	nref := 2 - second
	for i := 0; i < nref; i++ {
		vAssert(chs[i] != nil, "c08j.refresh_returns_a_channel")
		if chs[i] == nil {
			continue
		}
		vAssert(len(chs[i]) == 1, "c08j.exactly_one_result_per_refresh_call")
		if len(chs[i]) != 1 {
			continue
		}
		r := <-chs[i]
		vAssert(r.Key == 1, "c08j.result_key")
		switch outcome {
		case 0:
			vAssert(r.Err == nil && r.Value >= 500 && r.Value < 500+len(ivals), "c08j.refresh_result_is_a_loaded_value")
		case 1:
			vAssert(r.Err == zzErrLoad, "c08j.refresh_result_error")
		default:
			vAssert(errors.Is(r.Err, ErrNotFound), "c08j.refresh_result_notfound")
		}
	}
	if second == 1 {
		if gerr == nil {
			vAssert(gv == initial || (gv >= 500 && gv < 500+len(ivals)), "c08j.get_returns_cached_or_loaded")
		} else {
			vAssert(outcome != 0, "c08j.get_fails_only_when_the_loader_fails")
		}
	}
	vAssert(len(ivals) >= 1 && len(ivals) <= 2, "c08j.loader_invocation_count")
	vAssert(c.cache.singleflight.getCall(1) == nil, "c08j.no_inflight_record_left")
	if vParam("canary") == 1 {
		vAssert(len(ivals) == 0, "c08j.canary")
	}
}

// zzFnLoader: a Loader whose Load and Reload are harness closures.
type zzFnLoader struct {
	load, reload func() (int, error)
}

func (l *zzFnLoader) Load(ctx context.Context, key int) (int, error) { return l.load() }
func (l *zzFnLoader) Reload(ctx context.Context, key int, old int) (int, error) {
	return l.reload()
}

func init() { vRegister("ZZ_C09_FailedLoadVsWrite", ZZ_C09_FailedLoadVsWrite) }

// ZZ_C09_FailedLoadVsWrite: a Get of an absent key whose loader fails (error or not-found) after the clock has moved,
// racing with an explicit write of that key. A failed load leaves the cache unchanged (C10) and the explicit write
// stands (C09) — including its deadlines (C12): afterwards the entry holds the written value with expiration and
// refresh times equal to the write's clock reading plus the calculators' durations, not re-armed by the failure.
func ZZ_C09_FailedLoadVsWrite() {
	out := vChoice("loader", 2) // 0 error, 1 not found
	wop := vChoice("writer", 3) // 0 Set, 1 Compute->Write, 2 SetIfAbsent
	vScenario([]string{"error", "notfound"}[out] + ";" + []string{"Set", "ComputeWrite", "SetIfAbsent"}[wop])
	clkm := &zzAClock{}
	clkm.now.Store(1 << 32)
	const dExp, dRef = 100000, 1000
	c := Must(&Options[int, int]{
		Logger:            &NoopLogger{},
		Clock:             clkm,
		ExpiryCalculator:  ExpiryWriting[int, int](dExp),
		RefreshCalculator: RefreshWriting[int, int](dRef),
		Executor:          func(fn func()) { fn() },
	})
	vDaemons()
	tick := &zzTick{}
	const written = 700
	loadStart, loadCalls := 0, 0
	ld := LoaderFunc[int, int](func(ctx context.Context, key int) (int, error) {
		loadStart = tick.now()
		loadCalls++
		vYield()
		clkm.now.Add(7) // the failure is processed at a later clock reading than the write
		if out == 1 {
			return 0, ErrNotFound
		}
		return 0, zzErrLoad
	})
	var lerr error
	w0 := 0
	var tw0, tw1 int64
	L := func() { _, lerr = c.Get(context.Background(), 1, ld) }
	W := func() {
		w0 = tick.now()
		tw0 = clkm.now.Load()
		switch wop {
		case 0:
			c.Set(1, written)
		case 1:
			c.Compute(1, func(old int, found bool) (int, ComputeOp) { return written, WriteOp })
		case 2:
			c.SetIfAbsent(1, written)
		}
		tw1 = clkm.now.Load()
	}
	vPar(L, W)
	e, present := c.GetEntryQuietly(1)
	if loadCalls == 1 {
		vAssert(lerr != nil, "c09f.failure_reaches_the_caller")
		if w0 > loadStart {
			// the write began while the load was in flight (or after it): it stands, untouched by the failed load
			vAssert(present && e.Value == written, "c09f.explicit_write_survives_the_failed_load")
		}
	}
	if present && e.Value == written {
		vAssert(e.ExpiresAtNano == tw0+dExp || e.ExpiresAtNano == tw1+dExp, "c09f.failed_load_leaves_expiration_time_of_the_written_entry")
		vAssert(e.RefreshableAtNano == tw0+dRef || e.RefreshableAtNano == tw1+dRef, "c09f.failed_load_leaves_refresh_time_of_the_written_entry")
	}
	vAssert(c.cache.singleflight.getCall(1) == nil, "c09f.no_inflight_record_left")
}

func init() { vRegister("ZZ_C08_NonWritingOpDuringLoad", ZZ_C08_NonWritingOpDuringLoad) }

// ZZ_C08_NonWritingOpDuringLoad: while a load of key 1 is in flight, the other thread performs an operation that does
// not write, invalidate or evict the key (a cancelled Compute / ComputeIfAbsent, ComputeIfPresent on the absent key,
// lookups, SetExpiresAfter on the absent key) and then calls Get itself: that Get joins the load in flight — loader
// invocations for the key never overlap — and receives its result.
func ZZ_C08_NonWritingOpDuringLoad() {
	op := vChoice("op", 6)
	vScenario([]string{"ComputeCancel", "ComputeIfAbsentCancel", "ComputeIfPresent", "GetIfPresent", "GetEntryQuietly", "SetExpiresAfter"}[op])
	c := Must(&Options[int, int]{Logger: &NoopLogger{}})
	clk := &zzTick{}
	var ivals []zzIval
	loader := LoaderFunc[int, int](func(ctx context.Context, key int) (int, error) {
		in := clk.now()
		idx := 0
		vAtomic(func() { ivals = append(ivals, zzIval{in: in}); idx = len(ivals) - 1 })
		vYield()
		out := clk.now()
		vAtomic(func() { ivals[idx].out = out })
		return 500 + idx, nil
	})
	var av, bv int
	var aerr, berr error
	A := func() { av, aerr = c.Get(context.Background(), 1, loader) }
	B := func() {
		switch op {
		case 0:
			c.Compute(1, func(old int, found bool) (int, ComputeOp) { return 0, CancelOp })
		case 1:
			c.ComputeIfAbsent(1, func() (int, bool) { return 0, true })
		case 2:
			c.ComputeIfPresent(1, func(old int) (int, ComputeOp) { return old, CancelOp })
		case 3:
			c.GetIfPresent(1)
		case 4:
			c.GetEntryQuietly(1)
		case 5:
			c.SetExpiresAfter(1, 1000)
		}
		bv, berr = c.Get(context.Background(), 1, loader)
	}
	vPar(A, B)
	for i := 0; i < len(ivals); i++ {
		for j := i + 1; j < len(ivals); j++ {
			vAssert(ivals[i].out < ivals[j].in || ivals[j].out < ivals[i].in, "c08n.loader_invocations_do_not_overlap")
		}
	}
	vAssert(aerr == nil && berr == nil, "c08n.every_caller_gets_a_value")
	vAssert(av >= 500 && av < 500+len(ivals) && bv >= 500 && bv < 500+len(ivals), "c08n.callers_receive_a_loaded_value")
	vAssert(len(ivals) >= 1 && len(ivals) <= 2, "c08n.loader_invocation_count")
	vAssert(c.cache.singleflight.getCall(1) == nil, "c08n.no_inflight_record_left")
}
