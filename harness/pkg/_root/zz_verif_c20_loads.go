package otter

// C20 — load statistics and lookup counters around loaders: single and bulk loads, explicit and automatic refreshes,
// every loader outcome including panics. Harness-side tallies: lookups (each distinct key of a BulkGet once), hits,
// loader invocations (Load, Reload, BulkLoad, BulkReload each count one), successful invocations (nil error or
// ErrNotFound). Quiet reads and explicit refreshes move no lookup counter.

import (
	"context"
)

func init() { vRegister("ZZ_C20_Loads", ZZ_C20_Loads) }

type zzStatLoader struct {
	outcome int // 0 ok, 1 error, 2 not found, 3 panic
	inv     *int
	ok      *int
}

func (l *zzStatLoader) result(key int) (int, error) {
	*l.inv++
	switch l.outcome {
	case 0:
		*l.ok++
		return 9000 + key, nil
	case 1:
		return 0, zzErrLoad
	case 2:
		*l.ok++ // not-found is recorded as a successful load
		return 0, ErrNotFound
	}
	panic("zz stat loader boom")
}
func (l *zzStatLoader) Load(ctx context.Context, key int) (int, error) { return l.result(key) }
func (l *zzStatLoader) Reload(ctx context.Context, key int, old int) (int, error) {
	return l.result(key)
}

type zzStatBulk struct {
	outcome int // 0 full, 1 partial (largest key missing), 2 error, 3 panic
	inv     *int
	ok      *int
}

func (l *zzStatBulk) result(keys []int) (map[int]int, error) {
	*l.inv++
	if l.outcome == 3 {
		panic("zz stat bulk boom")
	}
	res := map[int]int{}
	mx := 0
	for _, k := range keys {
		if k > mx {
			mx = k
		}
	}
	for _, k := range keys {
		if !(l.outcome == 1 && k == mx) {
			res[k] = 9000 + k
		}
	}
	if l.outcome == 2 {
		return res, zzErrLoad
	}
	*l.ok++
	return res, nil
}
func (l *zzStatBulk) BulkLoad(ctx context.Context, keys []int) (map[int]int, error) {
	return l.result(keys)
}
func (l *zzStatBulk) BulkReload(ctx context.Context, keys []int, old []int) (map[int]int, error) {
	return l.result(keys)
}

func ZZ_C20_Loads() {
	cfg := zzCfgFromParams()
	cfg.stats = true
	s := zzNewSeqD(cfg, "c20l", true) // concrete durations: refresh 1 s
	c := s.env.c
	s.env.clk.now = 1 << 32
	s.step(zzOpSet, 1, "c20l.prefix") // key 1 present, keys 2 and 3 absent
	stale := vChoice("stale", 2) == 1
	if stale {
		s.env.clk.now += 1_000_000_000
	}
	reloadDue := stale && s.withRef()
	inv, ok := 0, 0
	sync := func(tag string) {
		if s.env.cfg.deferred {
			s.env.ex.Run()
		}
		s.loads = uint64(inv)
		s.loadOK = uint64(ok)
		s.checkStats(tag)
	}
	nsteps := vParam("steps")
	sc := ""
	for st := 0; st < nsteps; st++ {
		present := func(k int) bool { _, p := c.GetEntryQuietly(k); return p }
		op := vChoice("op", 5)
		switch op {
		case 0: // loader-backed Get
			k := 1 + vChoice("key", 2)
			out := vChoice("outcome", 4)
			p := present(k)
			// a panicking Reload on the executor is outside the property (it would crash the executor's goroutine)
			vAssume(!(p && reloadDue && out == 3))
			sc += "Get(" + []string{"", "present", "absent"}[k] + "," + []string{"ok", "error", "notfound", "panic"}[out] + ");"
			vScenario(sc)
			s.lookups++
			if p {
				s.hitsWant++
			}
			ld := &zzStatLoader{outcome: out, inv: &inv, ok: &ok}
			before := inv
			panicked := vExpectPanic(func() { c.Get(context.Background(), k, ld) })
			if !p {
				vAssert(inv == before+1, "c20l.get_miss_invokes_the_loader_once")
				vAssert(panicked == (out == 3), "c20l.loader_panic_surfaces")
			} else if !s.env.cfg.deferred && reloadDue && st == 0 {
				// (first step only: afterwards the entry may have been reloaded and be fresh again)
				vAssert(inv == before+1, "c20l.stale_hit_reloads_once")
			}
		case 1: // BulkGet; duplicates in the request count once
			reqs := [][]int{{1, 2}, {2, 3}, {2, 2, 3}, {1, 1}, {3, 1, 3}}
			ri := vChoice("req", len(reqs))
			out := vChoice("bulk", 4)
			req := reqs[ri]
			var seen [4]bool
			nmiss, nhit := 0, 0
			for _, k := range req {
				if seen[k] {
					continue
				}
				seen[k] = true
				if present(k) {
					nhit++
				} else {
					nmiss++
				}
			}
			vAssume(!(nhit > 0 && reloadDue && out == 3))
			sc += "BulkGet(" + []string{"1,2", "2,3", "2,2,3", "1,1", "3,1,3"}[ri] + "," + []string{"full", "partial", "error", "panic"}[out] + ");"
			vScenario(sc)
			s.lookups += uint64(nhit + nmiss)
			s.hitsWant += uint64(nhit)
			bl := &zzStatBulk{outcome: out, inv: &inv, ok: &ok}
			before := inv
			panicked := vExpectPanic(func() { c.BulkGet(context.Background(), req, bl) })
			if nmiss > 0 {
				vAssert(panicked == (out == 3), "c20l.bulk_loader_panic_surfaces")
			} else {
				vAssert(!panicked, "c20l.bulkget_of_hits_does_not_panic")
			}
			if s.env.cfg.deferred || !reloadDue || nhit == 0 {
				want := before
				if nmiss > 0 {
					want++
				}
				vAssert(inv == want, "c20l.bulk_loader_invoked_at_most_once_and_only_for_misses")
			}
		case 2: // explicit Refresh: no lookup counter moves
			k := 1 + vChoice("key", 2)
			out := vChoice("outcome", 3)
			sc += "Refresh(" + []string{"", "present", "absent"}[k] + "," + []string{"ok", "error", "notfound"}[out] + ");"
			vScenario(sc)
			ld := &zzStatLoader{outcome: out, inv: &inv, ok: &ok}
			c.Refresh(context.Background(), k, ld)
		case 3: // explicit BulkRefresh
			out := vChoice("bulk", 3)
			sc += "BulkRefresh(1,2," + []string{"full", "partial", "error"}[out] + ");"
			vScenario(sc)
			bl := &zzStatBulk{outcome: out, inv: &inv, ok: &ok}
			c.BulkRefresh(context.Background(), []int{1, 2}, bl)
		case 4: // quiet reads
			sc += "Quiet;"
			vScenario(sc)
			c.GetEntryQuietly(1)
			c.GetEntryQuietly(2)
			for range c.All() {
			}
		}
		sync("c20l")
	}
	if vParam("canary") == 1 {
		vAssert(inv == 0, "c20l.canary")
	}
}
