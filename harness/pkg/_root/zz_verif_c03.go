package otter

// C03 — an entry is never observable after its expiration deadline.
// One step from the symbolic per-key state "expired, not yet swept" (deferred executor: nothing
// sweeps), every public operation, then the observers. All clock readings and durations are 64-bit symbols.

func init() {
	vRegister("ZZ_C03_ExpiredUnswept", ZZ_C03_ExpiredUnswept)
	vRegister("ZZ_C03_Sync", ZZ_C03_Sync)
	vRegister("ZZ_C03_IterAdvancing", ZZ_C03_IterAdvancing)
}

// ZZ_C03_IterAdvancing: the clock moves *while* an iteration is in progress (the loop body advances it by a symbolic
// amount after the first yield). Whatever All/Keys/Values yield afterwards must not have reached its deadline at the
// moment it is yielded ("no operation ... iterates over it"). Hottest/Coldest are left out: they are documented
// snapshots taken before the first yield.
func ZZ_C03_IterAdvancing() {
	cfg := zzCfgFromParams()
	cfg.deferred = true
	s := zzNewSeq(cfg, "c03i")
	c := s.env.c
	s.env.clk.now = zzTime("t0")
	nk := vParam("nkeys")
	for k := 1; k <= nk; k++ {
		s.step(zzOpSet, k, "c03i.prefix")
		s.advance()
	}
	which := vChoice("iterator", 3)
	vScenario([]string{"All", "Keys", "Values"}[which])
	yields := 0
	body := func(k int, haveKey bool, v int) {
		yields++
		if !haveKey {
			for kk := 1; kk <= nk; kk++ {
				if s.m[kk].val == v {
					k = kk
				}
			}
		}
		vAssert(k >= 1 && k <= nk, "c03i.iter.key")
		if k >= 1 && k <= nk {
			vAssert(s.present(k), "c03i.iter.never_yields_an_entry_whose_deadline_has_been_reached")
		}
		if yields == 1 {
			s.advance()
		}
	}
	switch which {
	case 0:
		for k, v := range c.All() {
			body(k, true, v)
		}
	case 1:
		for k := range c.Keys() {
			body(k, true, 0)
		}
	default:
		for v := range c.Values() {
			body(0, false, v)
		}
	}
	if yields >= 2 {
		vReach("c03i.second_yield_reached")
	}
	if vParam("canary") == 1 {
		vAssert(yields < 2, "c03i.canary")
	}
}

// ZZ_C03_Sync: same-goroutine executor and a size bound (Coldest/Hottest, maintenance inside the operations),
// concrete clock offsets that leave an entry expired but not swept (deadline reached inside the current wheel tick).
func ZZ_C03_Sync() { zzRunSync("c03s", zzCfgFromParams()) }

func ZZ_C03_ExpiredUnswept() {
	cfg := zzCfgFromParams()
	cfg.deferred = true
	s := zzNewSeq(cfg, "c03")
	c := s.env.c
	t0 := zzTime("t0")
	s.env.clk.now = t0
	s.step(zzOpSet, 1, "c03.prefix")
	v0 := s.m[1].val
	// clock reaches or passes the deadline
	s.advance()
	vAssume(s.m[1].exp <= s.now())
	op := vParam("op")
	if op < 0 {
		// every operation except CleanUp: with a symbolic clock the sweep itself is C13's subject
		op = vChoice("op", zzOpCleanUp)
	}
	vScenario(zzOpNames[op])
	s.step(op, 1, "c03")
	// the clock moves on, observers must not show the dead value
	s.advance()
	s.observe("c03.after")
	s.iterate("c03.after")
	if e, ok := c.GetEntryQuietly(1); ok {
		vAssert(e.Value != v0, "c03.dead_value_visible_again")
	}
	if v, ok := c.GetIfPresent(1); ok {
		vAssert(v != v0, "c03.dead_value_returned")
	}
	if vParam("canary") == 1 {
		_, ok := c.GetEntryQuietly(1)
		vAssert(!ok, "c03.canary")
	}
}
