package otter

// C03 — an entry is never observable after its expiration deadline.
// One step from the symbolic per-key state "expired, not yet swept" (deferred executor: nothing
// sweeps), every public operation, then the observers. All clock readings and durations are 64-bit symbols.

func init() {
	vRegister("ZZ_C03_ExpiredUnswept", ZZ_C03_ExpiredUnswept)
	vRegister("ZZ_C03_Sync", ZZ_C03_Sync)
}

// ZZ_C03_Sync: same-goroutine executor and a size bound (Coldest/Hottest, maintenance inside the operations),
// concrete clock offsets that leave an entry expired but not swept (deadline reached inside the current wheel tick).
func ZZ_C03_Sync() { zzRunSync("c03s", zzCfgFromParams()) }

func ZZ_C03_ExpiredUnswept() {
	cfg := zzCfgFromParams()
	cfg.deferred = true
	s := zzNewSeq(cfg, "c03")
	c := s.env.c
	t0 := zzTime("t0")
	s.env.clk.now = t0
	s.step(zzOpSet, 1, "c03.prefix")
	v0 := s.m[1].val
	// clock reaches or passes the deadline
	s.advance()
	vAssume(s.m[1].exp <= s.now())
	op := vParam("op")
	if op < 0 {
		// every operation except CleanUp: with a symbolic clock the sweep itself is C13's subject
		op = vChoice("op", zzOpCleanUp)
	}
	vScenario(zzOpNames[op])
	s.step(op, 1, "c03")
	// the clock moves on, observers must not show the dead value
	s.advance()
	s.observe("c03.after")
	s.iterate("c03.after")
	if e, ok := c.GetEntryQuietly(1); ok {
		vAssert(e.Value != v0, "c03.dead_value_visible_again")
	}
	if v, ok := c.GetIfPresent(1); ok {
		vAssert(v != v0, "c03.dead_value_returned")
	}
	if vParam("canary") == 1 {
		_, ok := c.GetEntryQuietly(1)
		vAssert(!ok, "c03.canary")
	}
}
