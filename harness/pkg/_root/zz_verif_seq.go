package otter

// The abstract oracle (DESIGN.md appendix A): a map whose entries carry an expiration deadline, a
// refresh time and a weight, plus the deletion events the cache is expected to deliver. It is executed
// symbolically alongside the real cache and compared after every call.

import (
	"context"
	"errors"
	"time"
)

const (
	zzNK     = 3 // keys 1..3
	zzMaxI64 = int64(^uint64(0) >> 1)
)

type zzME struct {
	exists bool // physically in the cache as far as explicit operations and reported events say
	val    int
	w      uint32
	exp    int64
	ref    int64
}

type zzSeq struct {
	env     *zzEnv
	m       [zzNK + 1]zzME
	nextVal int
	aSeen   int
	pSeen   int
	expect  []zzEvent // explicit events predicted for the operation in progress
	optional []zzEvent // physical drops of expired entries the operation is allowed (not obliged) to perform
	reported []zzEvent // every (key,value) the model has accounted for as removed
	// durations
	dC, dU, dR time.Duration
	rC, rU     time.Duration
	// tallies for C20
	lookups, hitsWant, loads, loadOK uint64
	// C07: at the moment of every automatic removal the handler checks the justification
	hadOverflow bool
	maximum     uint64
	lastW       uint32
	concreteClock bool
	narrow      bool // clock advances are bounded by 2^40 (stated in the harness that sets it)
	nOverflow, wOverflow     uint64 // Overflow events and their weights
	nExpired, wExpired       uint64 // Expiration events (any path) and their weights
	prevStats                [6]uint64
	tag         string
}

func zzSat(now int64, d time.Duration) int64 {
	if now > zzMaxI64-int64(d) {
		return zzMaxI64
	}
	return now + int64(d)
}

func (s *zzSeq) now() int64 { return s.env.clk.now }

func (s *zzSeq) present(k int) bool {
	e := &s.m[k]
	return e.exists && e.exp > s.now()
}

func (s *zzSeq) withExp() bool { return s.env.cfg.expiry != zzExpNone }
func (s *zzSeq) withRef() bool { return s.env.cfg.refresh != zzRefNone }

func (s *zzSeq) weight(k, v int) uint32 {
	if s.env.cfg.bound == 2 && s.env.cfg.weigher != nil {
		return s.env.cfg.weigher(k, v)
	}
	return 1
}

func (s *zzSeq) fresh() int {
	s.nextVal++
	return 100 + s.nextVal
}

// modelWrite installs (k,v) at the current clock reading, predicting the event for the old value.
func (s *zzSeq) modelWrite(k, v int) {
	now := s.now()
	old := s.m[k]
	oldPresent := s.present(k)
	if old.exists {
		cause := CauseReplacement
		if !oldPresent {
			cause = CauseExpiration
		}
		s.expect = append(s.expect, zzEvent{key: k, val: old.val, cause: cause, w: old.w})
	}
	n := zzME{exists: true, val: v, w: s.weight(k, v), exp: zzMaxI64, ref: zzMaxI64}
	if s.withExp() {
		if oldPresent {
			switch s.env.cfg.expiry {
			case zzExpCreating:
				n.exp = old.exp
			case zzExpCustom:
				n.exp = zzSat(now, s.dU)
			default:
				n.exp = zzSat(now, s.dC)
			}
		} else {
			n.exp = zzSat(now, s.dC)
		}
	}
	if s.withRef() {
		if oldPresent {
			switch s.env.cfg.refresh {
			case zzRefCreating:
				n.ref = old.ref
			case zzRefCustom:
				n.ref = zzSat(now, s.rU)
			default:
				n.ref = zzSat(now, s.rC)
			}
		} else {
			n.ref = zzSat(now, s.rC)
		}
	}
	s.m[k] = n
}

// modelRemove removes k explicitly (Invalidate / Compute->Invalidate), predicting its event.
func (s *zzSeq) modelRemove(k int) {
	old := s.m[k]
	if old.exists {
		cause := CauseInvalidation
		if !s.present(k) {
			cause = CauseExpiration
		}
		s.expect = append(s.expect, zzEvent{key: k, val: old.val, cause: cause, w: old.w})
	}
	s.m[k] = zzME{}
}

// modelDropIfExpired: operations that meet an expired, unswept entry and leave the key absent may
// physically drop it (reported as Expiration) — sanctioned, invisible in the abstract map.
func (s *zzSeq) modelMayDropExpired(k int) {
	if s.m[k].exists && !s.present(k) {
		s.optional = append(s.optional, zzEvent{key: k, val: s.m[k].val, cause: CauseExpiration, w: s.m[k].w})
	}
}

func (s *zzSeq) modelReadHook(k int) {
	if !s.withExp() {
		return
	}
	switch s.env.cfg.expiry {
	case zzExpAccessing:
		s.m[k].exp = zzSat(s.now(), s.dC)
	case zzExpCustom:
		s.m[k].exp = zzSat(s.now(), s.dR)
	}
}

// syncEvents consumes the events delivered since the last call and updates the model:
// predicted explicit events must appear exactly once; everything else must be an automatic
// removal (Overflow / Expiration) of a value the model still holds.
func (s *zzSeq) syncEvents(tag string) {
	ev := s.env.ev
	for s.aSeen < len(ev.atomic) {
		e := ev.atomic[s.aSeen]
		s.aSeen++
		matched := false
		for i := range s.expect {
			if s.expect[i].key == e.key && s.expect[i].val == e.val {
				w := uint64(s.expect[i].w)
				s.lastW = s.expect[i].w
				if (s.expect[i].cause == CauseInvalidation || s.expect[i].cause == CauseExpiration) && e.cause == CauseOverflow && s.env.cfg.bound != 0 &&
					(s.modelTotal()+w > s.maximum || w > s.maximum) {
					// maintenance running inside the operation evicted the entry before the explicit removal
					// reached it: still exactly one event for the value, with a truthful cause (an entry that is
					// both expired and over the size bound may be reported with either cause)
					s.hadOverflow = true
				} else {
					vAssert(s.expect[i].cause == e.cause, tag+".event.cause")
				}
				s.expect = append(s.expect[:i:i], s.expect[i+1:]...)
				matched = true
				break
			}
		}
		if matched {
			s.reported = append(s.reported, e)
			s.tallyEvent(e, s.lastW)
			continue
		}
		// automatic removal
		vAssert(e.key >= 1 && e.key <= zzNK, tag+".event.key")
		me := &s.m[e.key]
		vAssert(me.exists && me.val == e.val, tag+".event.unknown_value")
		vAssert(e.cause == CauseOverflow || e.cause == CauseExpiration, tag+".event.auto_cause")
		if e.cause == CauseExpiration {
			vAssert(s.withExp() && me.exp <= s.now(), tag+".event.expiration_justified")
		}
		if e.cause == CauseOverflow {
			vAssert(s.env.cfg.bound != 0, tag+".event.overflow_without_bound")
			vAssert(s.overflowJustified(e.key), tag+".event.overflow_justified")
			vAssert(me.w != 0, tag+".event.zero_weight_evicted")
			s.hadOverflow = true
		}
		s.reported = append(s.reported, e)
		s.tallyEvent(e, me.w)
		*me = zzME{}
	}
	vAssert(len(s.expect) == 0, tag+".event.missing")
	s.expect = s.expect[:0]
}

func (s *zzSeq) tallyEvent(e zzEvent, w uint32) {
	switch e.cause {
	case CauseOverflow:
		s.nOverflow++
		s.wOverflow += uint64(w)
	case CauseExpiration:
		s.nExpired++
		s.wExpired += uint64(w)
	}
}

// checkStats compares the attached stats.Counter with the model's tallies (C20).
func (s *zzSeq) checkStats(tag string) {
	if s.env.ctr == nil {
		return
	}
	st := s.env.ctr.Snapshot()
	vAssert(st.Hits == s.hitsWant, tag+".stats.hits")
	vAssert(st.Hits+st.Misses == s.lookups, tag+".stats.hits_plus_misses_equals_lookups")
	vAssert(st.LoadSuccesses+st.LoadFailures == s.loads, tag+".stats.loads_equal_loader_invocations")
	vAssert(st.LoadSuccesses == s.loadOK, tag+".stats.load_successes")
	vAssert(st.Evictions >= s.nOverflow && st.Evictions <= s.nOverflow+s.nExpired, tag+".stats.evictions")
	vAssert(st.EvictionWeight >= s.wOverflow && st.EvictionWeight <= s.wOverflow+s.wExpired, tag+".stats.eviction_weight")
	if !s.withExp() {
		vAssert(st.Evictions == s.nOverflow && st.EvictionWeight == s.wOverflow, tag+".stats.evictions_exactly_overflow")
	}
	cur := [6]uint64{st.Hits, st.Misses, st.Evictions, st.EvictionWeight, st.LoadSuccesses, st.LoadFailures}
	for i := range cur {
		vAssert(cur[i] >= s.prevStats[i], tag+".stats.never_decrease")
	}
	s.prevStats = cur
}

// modelTotal is the total weight of the entries physically in the cache (count when unweighted).
func (s *zzSeq) modelTotal() uint64 {
	var t uint64
	for k := 1; k <= zzNK; k++ {
		if s.m[k].exists {
			t += uint64(s.m[k].w)
		}
	}
	return t
}

// overflowJustified: total weight exceeds the maximum at this moment, or the entry alone exceeds it.
func (s *zzSeq) overflowJustified(k int) bool {
	if s.env.cfg.bound == 0 {
		return false
	}
	return s.modelTotal() > s.maximum || uint64(s.m[k].w) > s.maximum
}

// syncPlain checks that OnDeletion received exactly the events OnAtomicDeletion received (as multisets),
// once the executor queue is empty.
func (s *zzSeq) syncPlain(tag string) {
	ev := s.env.ev
	vAssert(len(ev.plain) == len(ev.atomic), tag+".plain.count")
	if len(ev.plain) != len(ev.atomic) {
		return
	}
	used := make([]bool, len(ev.plain))
	for _, a := range ev.atomic {
		found := false
		for i, p := range ev.plain {
			if !used[i] && p.key == a.key && p.val == a.val && p.cause == a.cause {
				used[i] = true
				found = true
				break
			}
		}
		vAssert(found, tag+".plain.matches_atomic")
	}
}

// observe compares what the cache shows for every key with the model (quiet reads, no side effects).
func (s *zzSeq) observe(tag string) {
	c := s.env.c
	for k := 1; k <= zzNK; k++ {
		e, ok := c.GetEntryQuietly(k)
		if !s.present(k) {
			vAssert(!ok, tag+".observe.absent_key_visible")
			continue
		}
		// present in the model: the cache may lack it only after reporting an eviction (handled in syncEvents)
		vAssert(ok, tag+".observe.present_key_missing")
		if !ok {
			continue
		}
		vAssert(e.Value == s.m[k].val, tag+".observe.value")
		if s.withExp() {
			vAssert(e.ExpiresAtNano == s.m[k].exp, tag+".observe.expires_at")
		}
		if s.withRef() {
			vAssert(e.RefreshableAtNano == s.m[k].ref, tag+".observe.refreshable_at")
		}
		if s.env.cfg.bound == 2 {
			vAssert(e.Weight == s.m[k].w, tag+".observe.weight")
		}
	}
}

// iterate checks that All() yields exactly the present entries, each once.
func (s *zzSeq) iterate(tag string) {
	var seen [zzNK + 1]int
	n := 0
	for k, v := range s.env.c.All() {
		n++
		vAssert(k >= 1 && k <= zzNK, tag+".iter.key")
		if k >= 1 && k <= zzNK {
			seen[k]++
			vAssert(s.present(k), tag+".iter.yields_absent")
			vAssert(v == s.m[k].val, tag+".iter.value")
		}
	}
	for k := 1; k <= zzNK; k++ {
		if s.present(k) {
			vAssert(seen[k] == 1, tag+".iter.present_once")
		} else {
			vAssert(seen[k] == 0, tag+".iter.absent_never")
		}
	}
	vAssert(s.env.c.EstimatedSize() >= n, tag+".iter.estimated_size")
	// Keys / Values
	var seenK [zzNK + 1]int
	for k := range s.env.c.Keys() {
		if k >= 1 && k <= zzNK {
			seenK[k]++
		}
	}
	nv := 0
	for v := range s.env.c.Values() {
		nv++
		found := false
		for k := 1; k <= zzNK; k++ {
			if s.present(k) && s.m[k].val == v {
				found = true
			}
		}
		vAssert(found, tag+".iter.values_yields_only_present_values")
	}
	np := 0
	for k := 1; k <= zzNK; k++ {
		if s.present(k) {
			np++
			vAssert(seenK[k] == 1, tag+".iter.keys_present_once")
		} else {
			vAssert(seenK[k] == 0, tag+".iter.keys_absent_never")
		}
	}
	vAssert(nv == np, tag+".iter.values_count")
	// Coldest / Hottest run maintenance first: with a size bound and a symbolic clock that is a sweep
	// (C13's subject), so the orderings are checked when the clock is concrete or the cache is unbounded
	// (the orderings belong to C01/C03/C05; the event and statistics checks C06/C07/C20 leave them out)
	orderings := !(len(tag) >= 3 && (tag[:3] == "c04" || tag[:3] == "c06" || tag[:3] == "c07" || tag[:3] == "c20" || tag[:3] == "c17"))
	if orderings && (s.concreteClock || s.env.cfg.bound == 0 || !s.withExp()) {
		for _, hot := range []bool{false, true} {
			var seenO [zzNK + 1]int
			if hot {
				for e := range s.env.c.Hottest() {
					if e.Key >= 1 && e.Key <= zzNK {
						seenO[e.Key]++
						vAssert(e.Value == s.m[e.Key].val, tag+".iter.ordering_value")
					}
				}
			} else {
				for e := range s.env.c.Coldest() {
					if e.Key >= 1 && e.Key <= zzNK {
						seenO[e.Key]++
						vAssert(e.Value == s.m[e.Key].val, tag+".iter.ordering_value")
					}
				}
			}
			s.syncEvents(tag + ".iter.ordering")
			for k := 1; k <= zzNK; k++ {
				if s.present(k) {
					vAssert(seenO[k] == 1, tag+".iter.ordering_yields_present_once")
				} else {
					vAssert(seenO[k] == 0, tag+".iter.ordering_never_yields_absent_or_expired")
				}
			}
		}
	}
}

var zzErrLoad = errors.New("zz: load failed")

const (
	zzOpSet = iota
	zzOpSetIfAbsent
	zzOpGetIfPresent
	zzOpGetEntry
	zzOpGetEntryQuietly
	zzOpComputeWrite
	zzOpComputeInvalidate
	zzOpComputeCancel
	zzOpComputePanic
	zzOpComputeIfAbsentWrite
	zzOpComputeIfAbsentCancel
	zzOpComputeIfPresentWrite
	zzOpComputeIfPresentInvalidate
	zzOpComputeIfPresentCancel
	zzOpInvalidate
	zzOpInvalidateAll
	zzOpSetExpiresAfter
	zzOpSetRefreshableAfter
	zzOpGetLoadOK
	zzOpGetLoadErr
	zzOpGetLoadNotFound
	zzOpIterate
	zzOpCleanUp
	zzOpSetMaximum
	zzOpN
)

// step applies operation op to key k on both the cache and the model and compares the results.
func (s *zzSeq) step(op, k int, tag string) {
	c := s.env.c
	s.optional = s.optional[:0]
	pres := s.present(k)
	old := s.m[k]
	switch op {
	case zzOpSet:
		v := s.fresh()
		s.modelWrite(k, v)
		got, ok := c.Set(k, v)
		if pres {
			vAssert(!ok && got == old.val, tag+".set.returns_previous")
		} else {
			vAssert(ok && got == v, tag+".set.returns_new_when_absent_or_expired")
		}
	case zzOpSetIfAbsent:
		v := s.fresh()
		if pres {
			s.modelReadHook(k)
		} else {
			s.modelWrite(k, v)
		}
		got, ok := c.SetIfAbsent(k, v)
		if pres {
			vAssert(!ok && got == old.val, tag+".setifabsent.keeps_existing")
		} else {
			vAssert(ok && got == v, tag+".setifabsent.installs_when_absent_or_expired")
		}
	case zzOpGetIfPresent:
		s.lookups++
		if pres {
			s.hitsWant++
			s.modelReadHook(k)
		}
		got, ok := c.GetIfPresent(k)
		vAssert(ok == pres, tag+".getifpresent.found")
		if pres && ok {
			vAssert(got == old.val, tag+".getifpresent.value")
		}
	case zzOpGetEntry:
		s.lookups++
		if pres {
			s.hitsWant++
			s.modelReadHook(k)
		}
		e, ok := c.GetEntry(k)
		vAssert(ok == pres, tag+".getentry.found")
		if pres && ok {
			vAssert(e.Value == old.val && e.Key == k, tag+".getentry.value")
			if s.withExp() {
				vAssert(e.ExpiresAtNano == s.m[k].exp, tag+".getentry.expires_at")
			}
		}
	case zzOpGetEntryQuietly:
		e, ok := c.GetEntryQuietly(k)
		vAssert(ok == pres, tag+".getentryquietly.found")
		if pres && ok {
			vAssert(e.Value == old.val, tag+".getentryquietly.value")
		}
	case zzOpComputeWrite, zzOpComputeInvalidate, zzOpComputeCancel:
		s.lookups++
		if pres {
			s.hitsWant++
		}
		v := s.fresh()
		calls := 0
		var sawV int
		var sawF bool
		switch op {
		case zzOpComputeWrite:
			s.modelWrite(k, v)
		case zzOpComputeInvalidate:
			s.modelRemove(k)
		default:
			s.modelMayDropExpired(k)
		}
		got, ok := c.Compute(k, func(ov int, found bool) (int, ComputeOp) {
			calls++
			sawV, sawF = ov, found
			switch op {
			case zzOpComputeWrite:
				return v, WriteOp
			case zzOpComputeInvalidate:
				return 0, InvalidateOp
			}
			return 0, CancelOp
		})
		vAssert(calls == 1, tag+".compute.callback_once")
		vAssert(sawF == pres, tag+".compute.found_flag")
		if pres {
			vAssert(sawV == old.val, tag+".compute.sees_current")
		} else {
			vAssert(sawV == 0, tag+".compute.sees_zero_when_absent")
		}
		switch op {
		case zzOpComputeWrite:
			vAssert(ok && got == v, tag+".compute.write_result")
		case zzOpComputeInvalidate:
			vAssert(!ok && got == 0, tag+".compute.invalidate_result")
		default:
			if pres {
				vAssert(ok && got == old.val, tag+".compute.cancel_present")
			} else {
				vAssert(!ok && got == 0, tag+".compute.cancel_absent")
			}
		}
	case zzOpComputePanic:
		panicked := vExpectPanic(func() {
			c.Compute(k, func(ov int, found bool) (int, ComputeOp) { panic("zz boom") })
		})
		vAssert(panicked, tag+".compute.panic_propagates")
	case zzOpComputeIfAbsentWrite, zzOpComputeIfAbsentCancel:
		s.lookups++
		v := s.fresh()
		if pres {
			s.hitsWant++
			s.modelReadHook(k)
		} else if op == zzOpComputeIfAbsentWrite {
			s.modelWrite(k, v)
		} else {
			s.modelMayDropExpired(k)
		}
		calls := 0
		got, ok := c.ComputeIfAbsent(k, func() (int, bool) {
			calls++
			return v, op == zzOpComputeIfAbsentCancel
		})
		if pres {
			vAssert(calls == 0, tag+".computeifabsent.not_called_when_present")
			vAssert(ok && got == old.val, tag+".computeifabsent.returns_existing")
		} else {
			vAssert(calls == 1, tag+".computeifabsent.called_once")
			if op == zzOpComputeIfAbsentWrite {
				vAssert(ok && got == v, tag+".computeifabsent.write_result")
			} else {
				vAssert(!ok && got == 0, tag+".computeifabsent.cancel_result")
			}
		}
	case zzOpComputeIfPresentWrite, zzOpComputeIfPresentInvalidate, zzOpComputeIfPresentCancel:
		s.lookups++
		v := s.fresh()
		if pres {
			s.hitsWant++
			s.modelReadHook(k)
			switch op {
			case zzOpComputeIfPresentWrite:
				s.modelWrite(k, v)
			case zzOpComputeIfPresentInvalidate:
				s.modelRemove(k)
			}
		}
		calls := 0
		sawV := 0
		got, ok := c.ComputeIfPresent(k, func(ov int) (int, ComputeOp) {
			calls++
			sawV = ov
			switch op {
			case zzOpComputeIfPresentWrite:
				return v, WriteOp
			case zzOpComputeIfPresentInvalidate:
				return 0, InvalidateOp
			}
			return 0, CancelOp
		})
		if !pres {
			vAssert(calls == 0, tag+".computeifpresent.not_called_when_absent")
			vAssert(!ok && got == 0, tag+".computeifpresent.absent_result")
		} else {
			vAssert(calls == 1 && sawV == old.val, tag+".computeifpresent.called_once_with_current")
			switch op {
			case zzOpComputeIfPresentWrite:
				vAssert(ok && got == v, tag+".computeifpresent.write_result")
			case zzOpComputeIfPresentInvalidate:
				vAssert(!ok && got == 0, tag+".computeifpresent.invalidate_result")
			default:
				vAssert(ok && got == old.val, tag+".computeifpresent.cancel_result")
			}
		}
	case zzOpInvalidate:
		s.modelRemove(k)
		got, ok := c.Invalidate(k)
		if pres {
			vAssert(ok && got == old.val, tag+".invalidate.returns_previous")
		} else {
			vAssert(!ok && got == 0, tag+".invalidate.absent_or_expired_reports_nothing")
		}
	case zzOpInvalidateAll:
		for kk := 1; kk <= zzNK; kk++ {
			s.modelRemove(kk)
		}
		c.InvalidateAll()
	case zzOpSetExpiresAfter:
		d := zzDur("dOverride")
		if pres && s.withExp() {
			s.m[k].exp = zzSat(s.now(), d)
		}
		c.SetExpiresAfter(k, d)
	case zzOpSetRefreshableAfter:
		d := zzDur("rOverride")
		if pres && s.withRef() {
			s.m[k].ref = zzSat(s.now(), d)
		}
		c.SetRefreshableAfter(k, d)
	case zzOpGetLoadOK, zzOpGetLoadErr, zzOpGetLoadNotFound:
		s.lookups++
		v := s.fresh()
		if pres {
			s.hitsWant++
			s.modelReadHook(k)
		} else {
			s.loads++
			if op != zzOpGetLoadErr {
				s.loadOK++ // not-found counts as a successful load
			}
			if op == zzOpGetLoadOK {
				s.modelWrite(k, v)
			} else {
				s.modelMayDropExpired(k)
			}
		}
		calls := 0
		got, err := c.Get(context.Background(), k, LoaderFunc[int, int](func(ctx context.Context, key int) (int, error) {
			calls++
			vAssert(key == k, tag+".get.loader_key")
			switch op {
			case zzOpGetLoadOK:
				return v, nil
			case zzOpGetLoadErr:
				return v, zzErrLoad
			}
			return 0, ErrNotFound
		}))
		if pres {
			vAssert(calls == 0, tag+".get.no_load_when_present")
			vAssert(err == nil && got == old.val, tag+".get.returns_cached")
		} else {
			vAssert(calls == 1, tag+".get.loads_once_when_absent_or_expired")
			switch op {
			case zzOpGetLoadOK:
				vAssert(err == nil && got == v, tag+".get.returns_loaded")
			case zzOpGetLoadErr:
				vAssert(err == zzErrLoad && got == v, tag+".get.passes_loader_value_and_error")
			default:
				vAssert(errors.Is(err, ErrNotFound), tag+".get.not_found_error")
			}
		}
	case zzOpIterate:
		s.iterate(tag)
	case zzOpCleanUp:
		c.CleanUp()
	case zzOpSetMaximum:
		if s.env.cfg.bound != 0 {
			ms := []uint64{0, 1, 2, uint64(s.env.cfg.max)}
			m := ms[vChoice("newmax", len(ms))]
			s.maximum = m
			c.SetMaximum(m)
			vAssert(c.GetMaximum() == m, tag+".setmaximum.reported")
		}
	}
	// optional events (physical drop of expired entries) become expectations only if they were delivered
	s.absorbOptional()
	s.syncEvents(tag)
	s.checkStats(tag)
}

// absorbOptional: an allowed physical drop of an expired entry becomes an expectation iff it was delivered.
func (s *zzSeq) absorbOptional() {
	ev := s.env.ev
	for _, o := range s.optional {
		for i := s.aSeen; i < len(ev.atomic); i++ {
			if ev.atomic[i].key == o.key && ev.atomic[i].val == o.val {
				s.expect = append(s.expect, o)
				s.m[o.key] = zzME{}
				break
			}
		}
	}
	s.optional = s.optional[:0]
}

var zzOpNames = []string{"Set", "SetIfAbsent", "GetIfPresent", "GetEntry", "GetEntryQuietly", "ComputeWrite", "ComputeInvalidate",
	"ComputeCancel", "ComputePanic", "ComputeIfAbsentWrite", "ComputeIfAbsentCancel", "ComputeIfPresentWrite",
	"ComputeIfPresentInvalidate", "ComputeIfPresentCancel", "Invalidate", "InvalidateAll", "SetExpiresAfter",
	"SetRefreshableAfter", "GetLoadOK", "GetLoadErr", "GetLoadNotFound", "Iterate", "CleanUp", "SetMaximum"}

func zzNewSeq(cfg zzCfg, tag string) *zzSeq { return zzNewSeqD(cfg, tag, false) }

// zzNewSeqD: with concrete=true the calculator durations are fixed constants (2 s create, 3 s update,
// 1.5 s read; refresh 1 s) so that the timer-wheel arithmetic stays concrete.
func zzNewSeqD(cfg zzCfg, tag string, concrete bool) *zzSeq {
	s := &zzSeq{tag: tag, concreteClock: concrete}
	if concrete {
		s.dC, s.dU, s.dR = 2_000_000_000, 3_000_000_000, 1_500_000_000
		s.rC, s.rU = 1_000_000_000, 1_000_000_000
	} else {
		s.dC, s.dU, s.dR = zzDur("dCreate"), zzDur("dUpdate"), zzDur("dRead")
		s.rC, s.rU = zzDur("rCreate"), zzDur("rUpdate")
	}
	if cfg.expiry == zzExpCustom {
		cfg.expC = &zzCustomExpiry{create: s.dC, update: s.dU, read: s.dR}
	} else {
		cfg.expD = s.dC
	}
	if cfg.refresh == zzRefCustom {
		cfg.refC = &zzCustomRefresh{create: s.rC, update: s.rU, reload: s.rU, fail: s.rU}
	} else {
		cfg.refD = s.rC
	}
	s.env = zzNewEnv(cfg)
	s.maximum = uint64(cfg.max)
	return s
}

// advance moves the manual clock forward by an arbitrary non-negative amount (below the sentinel).
func (s *zzSeq) advance() {
	dt := vI64("dt")
	vAssume(dt >= 0 && dt < zzMaxI64-s.env.clk.now)
	if s.narrow {
		vAssume(dt < int64(1)<<40)
	}
	s.env.clk.now += dt
}
