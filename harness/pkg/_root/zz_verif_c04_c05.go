package otter

// C04 — size bound at quiescence; pinned (zero-weight) and oversized entries.
// C05 — policy bookkeeping agrees with the map at quiescence.
// Both run the sequence oracle with the same-goroutine executor (symbolic uint32 weights, SetMaximum among the
// operations) and, over schedules (B), two writers with the default executor; at quiescence (all calls returned,
// CleanUp done) the in-package audit walks the table, the three deques and the policy counters.

import "github.com/maypok86/otter/v2/internal/generated/node"

func init() {
	vRegister("ZZ_C04_Sync", ZZ_C04_Sync)
	vRegister("ZZ_C05_Sync", ZZ_C05_Sync)
	vRegister("ZZ_C0405_Par", ZZ_C0405_Par)
	vRegister("ZZ_C05_Pending", ZZ_C05_Pending)
	vRegister("ZZ_C04_Pending", ZZ_C04_Pending)
	vRegister("ZZ_C05_WheelPending", ZZ_C05_WheelPending)
}

// ZZ_C05_WheelPending: an expiring cache with a queueing (asynchronous) executor under a manual clock: Set(1), then
// `steps` operations from {Set, Invalidate, GetIfPresent, ComputeWrite, CleanUp} on keys {1,2} at clock offsets {0, 2 s}
// (2 s = the write-reset lifetime), so that several write events of one key are pending when maintenance replays them
// and some nodes are already scheduled in the timer wheel; then the queue and CleanUp run and the quiescent audit
// (timer-wheel membership included) is taken. Everything is concrete except the weights of a weighted configuration.
func ZZ_C05_WheelPending() {
	cfg := zzCfgFromParams()
	var ws [8]uint32
	if cfg.bound == 2 {
		for i := range ws {
			ws[i] = vU32("w")
		}
		cfg.weigher = func(k, v int) uint32 { return ws[(v-100)&7] }
	}
	s := zzNewSeqD(cfg, "c05w", true)
	s.env.clk.now = 1 << 32
	s.step(zzOpSet, 1, "c05w")
	sc := "Set;"
	ops := []int{zzOpSet, zzOpInvalidate, zzOpGetIfPresent, zzOpComputeWrite, zzOpCleanUp}
	offs := []int64{0, 2_000_000_000}
	for i := 0; i < vParam("steps"); i++ {
		s.env.clk.now += offs[vChoice("dt", len(offs))]
		op := ops[vChoice("op", len(ops))]
		k := 1
		if op != zzOpCleanUp {
			k = 1 + vChoice("key", 2)
		}
		sc += zzOpNames[op] + ";"
		vScenario(sc)
		s.step(op, k, "c05w")
		s.observe("c05w")
	}
	s.env.ex.Run()
	s.env.c.CleanUp()
	s.env.ex.Run()
	s.syncEvents("c05w.drain")
	zzQuiescentAudit(s.env.c, "c05w", false, true)
}

// ZZ_C05_Pending: sequential, deferred (asynchronous) executor, no expiry: several writes are recorded before
// maintenance runs; then the executor queue and CleanUp run and the quiescent audit is taken.
func ZZ_C05_Pending() {
	s := zzRunSym("c05p", zzCfgFromParams())
	s.env.ex.Run()
	s.env.c.CleanUp()
	s.env.ex.Run()
	s.syncEvents("c05p.drain")
	zzQuiescentAudit(s.env.c, "c05p", false, true)
}

// ZZ_C04_Pending: as ZZ_C05_Pending (several writes recorded before maintenance runs), audited for C04.
func ZZ_C04_Pending() {
	s := zzRunSym("c04p", zzCfgFromParams())
	s.env.ex.Run()
	s.env.c.CleanUp()
	s.env.ex.Run()
	s.syncEvents("c04p.drain")
	zzQuiescentAudit(s.env.c, "c04p", true, false)
}

// zzQuiescentAudit checks C04 (prefix c04) or C05 (prefix c05) on a quiescent cache.
func zzQuiescentAudit(c *Cache[int, int], tag string, wantC04, wantC05 bool) {
	impl := c.cache
	maximum := c.GetMaximum()
	// contents as iteration yields them
	var allKeys []int
	var sum uint64
	for k := range c.All() {
		allKeys = append(allKeys, k)
		e, ok := c.GetEntryQuietly(k)
		vAssert(ok, tag+".iterated_key_is_present")
		w := uint64(1)
		if impl.isWeighted {
			w = uint64(e.Weight)
		}
		sum += w
		if wantC04 {
			vAssert(w <= maximum, tag+".no_entry_heavier_than_maximum_is_retained")
		}
	}
	if wantC04 {
		vAssert(sum <= maximum, tag+".total_weight_within_maximum_at_quiescence")
		if impl.withEviction {
			// the eviction loop's guard is the policy's running total: it must be the true total of what is present
			vAssert(impl.evictionPolicy.weightedSize == sum, tag+".policy_running_total_equals_weight_of_entries_present")
		}
	}
	if impl.isWeighted {
		vAssert(c.WeightedSize() == sum, tag+".weighted_size_equals_sum_of_weights")
	}
	if !wantC05 {
		return
	}
	// entries that expired inside the current timer tick are still physically in the table (C13 gives them one
	// tick); EstimatedSize counts them, iteration does not
	expiredUnswept := 0
	if impl.withExpiration {
		now := impl.clock.NowNano()
		impl.hashmap.Range(func(n node.Node[int, int]) bool {
			if n.HasExpired(now) {
				expiredUnswept++
			}
			return true
		})
	}
	vAssert(c.EstimatedSize() == len(allKeys)+expiredUnswept, tag+".estimated_size_equals_iteration_count")
	inAll := map[int]int{}
	for _, k := range allKeys {
		inAll[k]++
	}
	for _, hot := range []bool{false, true} {
		seen := map[int]int{}
		if hot {
			for e := range c.Hottest() {
				seen[e.Key]++
			}
		} else {
			for e := range c.Coldest() {
				seen[e.Key]++
			}
		}
		for k, n := range seen {
			vAssert(n == 1 && inAll[k] == 1, tag+".ordering_yields_present_entries_once")
		}
		for k := range inAll {
			vAssert(seen[k] == 1, tag+".ordering_enumerates_every_present_entry")
		}
	}
	// expiration policy: the timer wheel schedules exactly the nodes of the table, each once, and nothing that was removed
	if impl.withExpiration {
		inWheel := map[int]int{}
		impl.expirationPolicy.ZZWalk(func(level, slot int, n node.Node[int, int]) {
			inWheel[n.Key()]++
			vAssert(n.IsAlive(), tag+".wheel.no_removed_entry_is_still_scheduled")
			hn := impl.hashmap.Get(n.Key())
			vAssert(hn != nil && hn.AsPointer() == n.AsPointer(), tag+".wheel.scheduled_node_is_the_table's_node")
		})
		nTable := 0
		impl.hashmap.Range(func(n node.Node[int, int]) bool {
			nTable++
			vAssert(inWheel[n.Key()] == 1, tag+".wheel.every_table_entry_is_scheduled_once")
			return true
		})
		vAssert(len(inWheel) == nTable, tag+".wheel.schedules_nothing_but_table_entries")
	}
	if !impl.withEviction {
		return
	}
	// structure: every alive node of the table is linked in exactly the deque its queue type names; the deques
	// hold nothing else; the three counters equal their sums
	p := impl.evictionPolicy
	linked := map[int]int{}
	var wWin, wProt, wAll uint64
	walk := func(seq func(yield func(node.Node[int, int]) bool), q int) {
		for n := range seq {
			linked[n.Key()]++
			vAssert(n.IsAlive(), tag+".no_removed_entry_is_still_tracked")
			vAssert(int(n.GetQueueType()) == q, tag+".node_in_the_queue_its_type_names")
			w := uint64(n.Weight())
			wAll += w
			if q == int(node.InWindowQueue) {
				wWin += w
			} else if q == int(node.InMainProtectedQueue) {
				wProt += w
			}
			hn := impl.hashmap.Get(n.Key())
			vAssert(hn != nil && hn.AsPointer() == n.AsPointer(), tag+".tracked_node_is_the_table's_node")
		}
	}
	walk(p.window.All(), int(node.InWindowQueue))
	walk(p.probation.All(), int(node.InMainProbationQueue))
	walk(p.protected.All(), int(node.InMainProtectedQueue))
	for k := range inAll {
		vAssert(linked[k] == 1, tag+".no_entry_present_but_unknown_to_the_policy")
	}
	for k, n := range linked {
		vAssert(n == 1 && inAll[k] == 1, tag+".policy_tracks_each_present_entry_once")
	}
	vAssert(p.weightedSize == wAll, tag+".weighted_size_counter_equals_sum")
	vAssert(p.windowWeightedSize == wWin, tag+".window_counter_equals_sum")
	vAssert(p.mainProtectedWeightedSize == wProt, tag+".protected_counter_equals_sum")
}

func zzSyncWeighted(tag string) *zzSeq {
	cfg := zzCfgFromParams()
	return zzRunSync(tag, cfg)
}

func ZZ_C04_Sync() {
	s := zzSyncWeighted("c04")
	zzQuiescentAudit(s.env.c, "c04", true, false)
	if vParam("canary") == 1 {
		vAssert(s.env.c.EstimatedSize() == 0, "c04.canary")
	}
}

func ZZ_C05_Sync() {
	s := zzSyncWeighted("c05")
	zzQuiescentAudit(s.env.c, "c05", false, true)
	if vParam("canary") == 1 {
		vAssert(s.env.c.EstimatedSize() == 0, "c05.canary")
	}
}

// ZZ_C0405_Par: two writers and the default executor's maintenance goroutines; prop selects the tag.
func ZZ_C0405_Par() {
	tag := "c04"
	if vParam("prop") == 5 {
		tag = "c05"
	}
	weighted := vParam("weighted") == 1
	o := &Options[int, int]{Logger: &NoopLogger{}}
	if weighted {
		o.MaximumWeight = uint64(vParam("max"))
		o.Weigher = func(k, v int) uint32 { return uint32(v & 3) } // weight = low bits of the value
	} else {
		o.MaximumSize = vParam("max")
	}
	c := Must(o)
	if vParam("pre") == 1 {
		c.Set(1, 1)
		c.CleanUp()
	}
	opA := vChoice("opA", 3)
	opB := vChoice("opB", 3)
	names := []string{"SetSameKey", "SetOtherKey", "Invalidate"}
	vScenario(names[opA] + "|" + names[opB])
	run := func(op, base int) func() {
		return func() {
			switch op {
			case 0:
				c.Set(1, base+2) // same key, another weight
			case 1:
				c.Set(base, base+1) // a new key
			case 2:
				c.Invalidate(1)
			}
		}
	}
	vPar(run(opA, 4), run(opB, 8))
	c.CleanUp()
	zzQuiescentAudit(c, tag, tag == "c04", tag == "c05")
}

func init() { vRegister("ZZ_C05_ReadVsSweep", ZZ_C05_ReadVsSweep) }

// ZZ_C05_ReadVsSweep: access-reset expiry; a read (or SetExpiresAfter) that extends the entry's lifetime races with the
// maintenance run that finds the entry's timer due (the other thread moves the clock past the deadline and calls
// CleanUp). Whoever wins, at quiescence the table, the eviction deques, the timer wheel and the counters agree
// (an entry that survived is still tracked by both policies, an entry that was expired is gone from all of them).
func ZZ_C05_ReadVsSweep() {
	rop := vChoice("reader", 3)
	vScenario([]string{"GetIfPresent", "GetEntry", "SetExpiresAfter"}[rop])
	clkm := &zzAClock{}
	clkm.now.Store(1 << 32)
	const life = 2_000_000_000
	c := Must(&Options[int, int]{
		Logger:           &NoopLogger{},
		MaximumSize:      10,
		Clock:            clkm,
		ExpiryCalculator: ExpiryAccessing[int, int](life),
		Executor:         func(fn func()) { fn() },
	})
	vDaemons()
	c.Set(1, 100)
	c.Set(2, 200)
	c.CleanUp()
	clkm.now.Add(1_000_000_000) // one second later both entries are alive
	c.GetIfPresent(2)           // key 2 is extended and stays alive throughout
	c.CleanUp()
	var rv int
	var rok bool
	A := func() {
		switch rop {
		case 0:
			rv, rok = c.GetIfPresent(1)
		case 1:
			var e Entry[int, int]
			e, rok = c.GetEntry(1)
			rv = e.Value
		case 2:
			c.SetExpiresAfter(1, 5_000_000_000)
		}
	}
	B := func() {
		clkm.now.Add(1_100_000_000) // key 1's original deadline has passed
		c.CleanUp()
	}
	vPar(A, B)
	if rok {
		vAssert(rv == 100, "c05r.read_returns_the_cached_value")
	}
	c.CleanUp()
	c.CleanUp()
	_, ok2 := c.GetEntryQuietly(2)
	vAssert(ok2, "c05r.untouched_live_entry_survives")
	zzQuiescentAudit(c, "c05r", false, true)
}
