package xsync

// C20 (schedule part) — the striped adder behind the hit/miss counters: concurrent Adds are never lost.

func init() { vRegister("ZZ_C20_Adder", ZZ_C20_Adder) }

func ZZ_C20_Adder() {
	a := NewAdder()
	n := vParam("threads")
	per := vParam("adds")
	add := func(base uint64) func() {
		return func() {
			for i := 0; i < per; i++ {
				a.Add(base << uint(i))
			}
		}
	}
	want := uint64(0)
	for t := 0; t < n; t++ {
		for i := 0; i < per; i++ {
			want += (uint64(1) << uint(4*t)) << uint(i)
		}
	}
	switch n {
	case 2:
		vPar(add(1), add(16))
	default:
		vPar(add(1), add(16), add(256))
	}
	vAssert(a.Value() == want, "c20.adder.value_is_sum_of_deltas")
	if vParam("canary") == 1 {
		vAssert(a.Value() == 0, "c20.adder.canary")
	}
}
