package queue

// C16 — write buffer: each event delivered exactly once, in producer order, bounded.
// Arithmetic lemmas (full width), sequential functional check from a symbolic starting index (every wrap
// position of every chunk), and (B): producers and the single consumer as engine threads.

func init() {
	vRegister("ZZ_C16_Arith", ZZ_C16_Arith)
	vRegister("ZZ_C16_Seq", ZZ_C16_Seq)
	vRegister("ZZ_C16_Par", ZZ_C16_Par)
}

// ZZ_C16_Arith: offsets stay inside the chunk for every index and every mask the constructor/resizer produces.
func ZZ_C16_Arith() {
	idx := vU64("idx")
	k := uint64(vChoice("log2cap", 12) + 1) // chunk capacities 2..4096
	capacity := uint64(1) << k
	mask := (capacity - 1) << 1
	dataLen := capacity + 1
	off := modifiedCalcElementOffset(idx, mask)
	vAssert(off < dataLen-1, "c16.arith.element_offset_inside_chunk")
	vAssert(nextArrayOffset(mask) == dataLen-1, "c16.arith.next_pointer_is_last_slot")
	// consecutive even indices map to consecutive slots modulo the capacity
	vAssume(idx&1 == 0)
	off2 := modifiedCalcElementOffset(idx+2, mask)
	vAssert(off2 == (off+1)%capacity, "c16.arith.consecutive_slots")
}

func zzNewAt(initial, max uint32, s uint64) *MPSC[int] {
	q := NewMPSC[int](initial, max)
	start := 2 * s
	q.producerIndex.Store(start)
	q.consumerIndex.Store(start)
	q.producerLimit.Store(start + q.producerMask.Load())
	return q
}

var zzCaps = [][2]uint32{{2, 4}, {2, 8}, {4, 4}, {4, 16}, {4, 5}, {2, 6}, {3, 12}, {4, 24}}

func ZZ_C16_Seq() {
	cp := zzCaps[vParam("caps")]
	s := vU64("startIndex")
	vAssume(s < 1<<61)
	q := zzNewAt(cp[0], cp[1], s)
	// documented bound: the maximum capacity rounded up to a power of two (computed independently of the queue)
	capacity := 1
	for uint32(capacity) < cp[1] {
		capacity <<= 1
	}
	vAssert(q.capacity() == capacity, "c16.seq.capacity_is_max_rounded_up")
	steps := vParam("steps")
	var model []int
	var elems [128]int
	next := 0
	for i := 0; i < steps; i++ {
		if vChoice("op", 2) == 0 {
			elems[next] = next + 1
			ok := q.TryPush(&elems[next])
			if len(model) < capacity {
				vAssert(ok, "c16.seq.push_accepted_below_capacity")
				model = append(model, next+1)
			} else {
				vAssert(!ok, "c16.seq.push_refused_only_when_full")
			}
			next++
		} else {
			p := q.TryPop()
			if len(model) == 0 {
				vAssert(p == nil, "c16.seq.pop_nil_when_empty")
			} else {
				vAssert(p != nil && *p == model[0], "c16.seq.fifo")
				model = model[1:]
			}
		}
		vAssert(q.Size() == uint64(len(model)), "c16.seq.size_exact")
		vAssert(q.IsEmpty() == (len(model) == 0), "c16.seq.isempty")
	}
	// push until refused, pop until nil
	for len(model) < capacity {
		elems[next] = next + 1
		vAssert(q.TryPush(&elems[next]), "c16.seq.fill_to_capacity")
		model = append(model, next+1)
		next++
	}
	elems[next] = next + 1
	vAssert(!q.TryPush(&elems[next]), "c16.seq.refused_at_capacity")
	for len(model) > 0 {
		p := q.TryPop()
		vAssert(p != nil && *p == model[0], "c16.seq.drain_fifo")
		model = model[1:]
	}
	vAssert(q.TryPop() == nil, "c16.seq.empty_after_drain")
	if vParam("canary") == 1 {
		vAssert(next < capacity, "c16.seq.canary")
	}
}

func ZZ_C16_Par() {
	cp := zzCaps[vParam("caps")]
	starts := []uint64{0, 1, 3, 1<<61 - 2}
	q := zzNewAt(cp[0], cp[1], starts[vChoice("start", len(starts))])
	pre := vParam("prefill")
	var vals [16]int
	for i := range vals {
		vals[i] = i + 1
	}
	for i := 0; i < pre; i++ {
		vAssert(q.TryPush(&vals[10+i]), "c16.par.prefill")
	}
	var accepted [16]bool
	for i := 0; i < pre; i++ {
		accepted[10+i] = true
	}
	var popped []int
	n1 := vParam("p1")
	n2 := vParam("p2")
	pops := vParam("pops")
	p1 := func() {
		for i := 0; i < n1; i++ {
			if q.TryPush(&vals[i]) {
				accepted[i] = true
			}
		}
	}
	p2 := func() {
		for i := 0; i < n2; i++ {
			if q.TryPush(&vals[5+i]) {
				accepted[5+i] = true
			}
		}
	}
	cons := func() {
		for i := 0; i < pops; i++ {
			if p := q.TryPop(); p != nil {
				popped = append(popped, *p)
			}
		}
	}
	vPar(p1, p2, cons)
	for {
		p := q.TryPop()
		if p == nil {
			break
		}
		popped = append(popped, *p)
	}
	var seen [17]int
	for _, v := range popped {
		vAssert(v >= 1 && v <= 16, "c16.par.no_invented_element")
		if v >= 1 && v <= 16 {
			seen[v]++
		}
	}
	for i := 0; i < 16; i++ {
		if accepted[i] {
			vAssert(seen[i+1] == 1, "c16.par.accepted_delivered_exactly_once")
		} else {
			vAssert(seen[i+1] == 0, "c16.par.refused_never_delivered")
		}
	}
	// per-producer order
	last1, last2, last0 := 0, 0, 0
	for _, v := range popped {
		switch {
		case v >= 1 && v <= 5:
			vAssert(v > last1, "c16.par.producer_order")
			last1 = v
		case v >= 6 && v <= 10:
			vAssert(v > last2, "c16.par.producer_order")
			last2 = v
		default:
			vAssert(v > last0, "c16.par.prefill_order")
			last0 = v
		}
	}
	vAssert(q.Size() == 0 && q.IsEmpty(), "c16.par.empty_at_quiescence")
	// refusal only at capacity: with room for everything nothing is refused
	if pre+n1+n2 <= q.capacity() {
		for i := 0; i < n1; i++ {
			vAssert(accepted[i], "c16.par.refused_only_when_full")
		}
		for i := 0; i < n2; i++ {
			vAssert(accepted[5+i], "c16.par.refused_only_when_full")
		}
	}
	if vParam("canary") == 1 {
		vAssert(len(popped) == 0, "c16.par.canary")
	}
}

func init() { vRegister("ZZ_C16_FullAtJump", ZZ_C16_FullAtJump) }

// ZZ_C16_FullAtJump: the queue is driven (sequentially) to its maximum chunk and kept completely full: push until
// refused, pop j elements (j chosen by the engine, so that for some j the consumer's next pop follows a jump marker),
// push until refused again. Then one producer (two offers) races with the consumer (two pops). Every accepted element
// is delivered exactly once in order, nothing accepted is lost, refused elements never appear.
func ZZ_C16_FullAtJump() {
	cp := zzCaps[vParam("caps")]
	q := zzNewAt(cp[0], cp[1], 0)
	var vals [64]int
	for i := range vals {
		vals[i] = i + 1
	}
	next := 0
	var accepted [64]bool
	var popped []int
	fill := func() {
		for next < 40 {
			if !q.TryPush(&vals[next]) {
				next++ // a refused element is never offered again
				return
			}
			accepted[next] = true
			next++
		}
	}
	fill()
	j := vChoice("popped_before", vParam("maxpop")+1)
	for i := 0; i < j; i++ {
		if p := q.TryPop(); p != nil {
			popped = append(popped, *p)
		}
	}
	fill()
	base := next
	prod := func() {
		for i := 0; i < 2; i++ {
			if q.TryPush(&vals[base+i]) {
				accepted[base+i] = true
			}
		}
	}
	cons := func() {
		for i := 0; i < 2; i++ {
			if p := q.TryPop(); p != nil {
				popped = append(popped, *p)
			}
		}
	}
	vPar(prod, cons)
	for n := 0; n < 64; n++ {
		p := q.TryPop()
		if p == nil {
			break
		}
		popped = append(popped, *p)
	}
	var seen [65]int
	last := 0
	for _, v := range popped {
		vAssert(v >= 1 && v <= 64, "c16.jump.no_invented_element")
		if v >= 1 && v <= 64 {
			seen[v]++
		}
		vAssert(v > last, "c16.jump.delivered_in_submission_order")
		last = v
	}
	for i := 0; i < 64; i++ {
		if accepted[i] {
			vAssert(seen[i+1] == 1, "c16.jump.accepted_delivered_exactly_once")
		} else {
			vAssert(seen[i+1] == 0, "c16.jump.refused_never_delivered")
		}
	}
	vAssert(q.Size() == 0 && q.IsEmpty(), "c16.jump.empty_at_quiescence")
}
