package queue

func init() { vRegister("ZZ_Selftest_MPSC", ZZ_Selftest_MPSC) }

// mpsc_test.go shapes: push to full across all growth steps (4 -> 32), pop to empty, interleaved push/pop.
func ZZ_Selftest_MPSC() {
	q := NewMPSC[int](4, 32)
	vTrace("cap", uint64(q.capacity()))
	vals := make([]int, 100)
	for i := range vals {
		vals[i] = i + 1
	}
	n := 0
	for i := 0; i < 40; i++ {
		if q.TryPush(&vals[i]) {
			n++
		} else {
			vTrace("refused.at", uint64(i))
			break
		}
	}
	vTrace("accepted", uint64(n))
	vTrace("size", q.Size())
	for i := 0; i < 10; i++ {
		p := q.TryPop()
		vTrace("pop", uint64(*p))
	}
	for i := 40; i < 46; i++ {
		if q.TryPush(&vals[i]) {
			vTrace("push2", uint64(i))
		}
	}
	for {
		p := q.TryPop()
		if p == nil {
			break
		}
		vTrace("drain", uint64(*p))
	}
	vTrace("size.end", q.Size())
	if q.IsEmpty() {
		vTrace("empty", 1)
	}
}
