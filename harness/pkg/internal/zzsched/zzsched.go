// Package zzsched forces a recorded schedule on the natively compiled cache (native replay of concurrent
// counterexamples). It is added to the build only through `go test -overlay`, together with copies of the repository's
// files whose imports of sync and sync/atomic point to the shims in internal/zzsync and whose go statements call Go.
//
// The engine records, for the counterexample's run, the order in which the visible operations took effect:
// (thread, kind). Natively every shim operation calls Turn(kind) first, which blocks until the head of that list names
// the calling thread, so the synchronisation operations of the real code take effect in exactly the recorded order
// (plain code between them runs freely; the engine's happens-before monitor has shown it to be race free).
// A thread whose next operation does not match the list (or a list that stalls) marks the run as diverged: from then on
// nothing is forced and the replay reports the divergence instead of a reproduction.
package zzsched

import (
	"encoding/json"
	"fmt"
	"os"
	"runtime"
	"strconv"
	"strings"
	"sync"
	"time"
)

type Ev struct {
	T int    `json:"t"`           // thread (numbered in creation order, 0 = the harness)
	K string `json:"k"`           // kind of visible operation
	C int    `json:"c,omitempty"` // for "go": the thread created
}

var (
	mu       sync.Mutex
	cond     = sync.NewCond(&mu)
	enabled  bool
	loaded   bool
	trace    []Ev
	pos      int
	diverged string
	tids     = map[int64]int{} // goroutine id -> thread number
	nextFree = 1000            // thread numbers handed out after a divergence
	live     = map[int]bool{}  // threads started through Go that have not finished
	daemons  = map[int]bool{}
	followed int
)

func goid() int64 {
	var buf [64]byte
	n := runtime.Stack(buf[:], false)
	s := strings.TrimPrefix(string(buf[:n]), "goroutine ")
	if i := strings.IndexByte(s, ' '); i > 0 {
		id, _ := strconv.ParseInt(s[:i], 10, 64)
		return id
	}
	return -1
}

// Init loads the schedule (VERIF_SCHED names a JSON list of events) and registers the calling goroutine as thread 0.
func Init() {
	mu.Lock()
	defer mu.Unlock()
	if loaded {
		return
	}
	loaded = true
	p := os.Getenv("VERIF_SCHED")
	if p == "" {
		return
	}
	b, err := os.ReadFile(p)
	if err != nil {
		panic(err)
	}
	if err := json.Unmarshal(b, &trace); err != nil {
		panic(err)
	}
	enabled = true
	tids[goid()] = 0
	go watchdog()
}

// watchdog: a schedule that makes no progress for 3 s has diverged (somebody waits for a turn that cannot come).
func watchdog() {
	last, lastT := -1, time.Now()
	for {
		time.Sleep(100 * time.Millisecond)
		mu.Lock()
		if diverged != "" || pos >= len(trace) {
			mu.Unlock()
			return
		}
		if pos != last {
			last, lastT = pos, time.Now()
		} else if time.Since(lastT) > 3*time.Second {
			diverged = fmt.Sprintf("stalled at event %d/%d (%v)", pos, len(trace), trace[pos])
			cond.Broadcast()
			mu.Unlock()
			return
		}
		mu.Unlock()
	}
}

// caller names the first frame outside the shims (where the diverging operation was issued).
func caller() string {
	pcs := make([]uintptr, 16)
	n := runtime.Callers(2, pcs)
	fr := runtime.CallersFrames(pcs[:n])
	for {
		f, more := fr.Next()
		if !strings.Contains(f.Function, "/zzsched.") && !strings.Contains(f.Function, "/zzsync") {
			return fmt.Sprintf("%s:%d", f.Function, f.Line)
		}
		if !more {
			return "?"
		}
	}
}

func me() (int, bool) {
	t, ok := tids[goid()]
	return t, ok
}

// Turn blocks until the recorded schedule says that the calling thread performs an operation of this kind next.
func Turn(kind string) {
	if !enabled {
		return
	}
	mu.Lock()
	defer mu.Unlock()
	turnLocked(kind)
}

func turnLocked(kind string) (ev Ev, ok bool) {
	t, known := me()
	if !known {
		return Ev{}, false // a goroutine the schedule does not know (started outside Go): never forced
	}
	for {
		if diverged != "" || pos >= len(trace) {
			return Ev{}, false
		}
		h := trace[pos]
		if h.T == t {
			if h.K != kind {
				diverged = fmt.Sprintf("event %d/%d: thread %d performs %s at %s, the schedule says %s", pos, len(trace), t, kind, caller(), h.K)
				cond.Broadcast()
				return Ev{}, false
			}
			pos++
			followed++
			cond.Broadcast()
			return h, true
		}
		cond.Wait()
	}
}

// Go replaces a go statement: the schedule says which thread number the new goroutine gets.
func Go(f func()) {
	if !enabled {
		go f()
		return
	}
	mu.Lock()
	ev, ok := turnLocked("go")
	child := ev.C
	if !ok {
		child = nextFree
		nextFree++
	}
	live[child] = true
	mu.Unlock()
	started := make(chan struct{})
	go func() {
		mu.Lock()
		tids[goid()] = child
		mu.Unlock()
		close(started)
		defer func() {
			mu.Lock()
			delete(live, child)
			cond.Broadcast()
			mu.Unlock()
		}()
		f()
	}()
	<-started
}

// Daemons marks the goroutines alive now as background daemons (not waited for by WaitOthers).
func Daemons() {
	mu.Lock()
	for t := range live {
		daemons[t] = true
	}
	mu.Unlock()
}

// WaitOthers waits until every goroutine started through Go (daemons excepted) has finished, or the timeout expires.
func WaitOthers(d time.Duration) bool {
	if !enabled {
		time.Sleep(20 * time.Millisecond)
		return true
	}
	deadline := time.Now().Add(d)
	for {
		mu.Lock()
		n := 0
		for t := range live {
			if !daemons[t] {
				n++
			}
		}
		mu.Unlock()
		if n == 0 {
			return true
		}
		if time.Now().After(deadline) {
			return false
		}
		time.Sleep(time.Millisecond)
	}
}

// Atomic runs f as one indivisible step at its recorded position (the harness's ghost observers).
func Atomic(f func()) {
	if !enabled {
		f()
		return
	}
	mu.Lock()
	turnLocked("vAtomic")
	mu.Unlock()
	ghost.Lock()
	defer ghost.Unlock()
	f()
}

var ghost sync.Mutex

// Report describes how the run related to the schedule.
func Report() string {
	if !enabled {
		return "ZZ-SCHED-OFF"
	}
	mu.Lock()
	defer mu.Unlock()
	if diverged != "" {
		return "ZZ-SCHED-DIVERGED " + diverged
	}
	return fmt.Sprintf("ZZ-SCHED-FOLLOWED %d/%d", followed, len(trace))
}

func Enabled() bool { return enabled }
