package expiration

import "github.com/maypok86/otter/v2/internal/generated/node"

// ZZWalk calls f for every timer linked in the wheel (sentinels excluded), level by level and slot by slot.
// Audit helper for C05/C13 (read-only).
func (v *Variable[K, V]) ZZWalk(f func(level, slot int, n node.Node[K, V])) {
	for i := range v.wheel {
		for j := range v.wheel[i] {
			root := v.wheel[i][j]
			for n := root.NextExp(); !node.Equals(n, root); n = n.NextExp() {
				f(i, j, n)
			}
		}
	}
}

// ZZTime is the wheel's current time (clock value of the last sweep).
func (v *Variable[K, V]) ZZTime() uint64 { return v.time }
