package expiration

import (
	"time"

	"github.com/maypok86/otter/v2/internal/generated/node"
)

func init() { vRegister("ZZ_Selftest_Wheel", ZZ_Selftest_Wheel) }

// variable_test.go's timers (1, 10, 30, 120, 6500, 142000, 1420000 s) and step sequence.
func ZZ_Selftest_Wheel() {
	nm := node.NewManager[int, int](node.Config{WithExpiration: true})
	now := int64(1_700_000_000_000_000_000)
	exp := func(s int64) int64 { return int64(time.Duration(s) * time.Second) }
	secs := []int64{1, 10, 30, 120, 6500, 142000, 1420000}
	v := NewVariable(nm)
	v.time = uint64(now)
	for i, s := range secs {
		v.Add(nm.Create(i+1, 0, now+exp(s), 0, 1))
	}
	steps := []int64{2, 64, 121, 12000, 350000, 1520000}
	for _, s := range steps {
		v.DeleteExpired(now+exp(s), func(n node.Node[int, int], t int64) {
			vTrace("expired", uint64(n.Key()))
		})
		vTrace("step", uint64(s))
	}
	// TestVariable_Add shape: which level/bucket each timer lands in
	w := NewVariable(nm)
	w.time = uint64(now)
	for i, s := range secs {
		n := nm.Create(i+1, 0, now+exp(s), 0, 1)
		w.Add(n)
		for L := 0; L < len(w.wheel); L++ {
			for b := range w.wheel[L] {
				if w.wheel[L][b].NextExp().AsPointer() == n.AsPointer() || w.wheel[L][b].PrevExp().AsPointer() == n.AsPointer() {
					vTrace("placed", uint64(L*1000+b))
				}
			}
		}
	}
}
