package expiration

// C13 — expired entries are swept within one timer tick: the timer-wheel layers.
// Layer 1 (placement): for all wheel times T and deadlines e >= T, findBucket files the node in the bucket
//   (L, (e>>shift[L]) & (buckets[L]-1)) of the first level whose span covers e-T, and the placement
//   invariant Inv(T,e,L) holds. Also the table relations the algorithm relies on.
// Layer 2 (sweep step): a tracked node linked by the real Add under Inv at wheel time P; the real
//   DeleteExpired(C) for symbolic C >= P: expired-by-more-than-a-tick => callback exactly once; callback only
//   if e < C; otherwise the node is linked where Inv(C,e,L') holds again (so the induction continues).

import (
	"math"

	"github.com/maypok86/otter/v2/internal/generated/node"
)

func init() {
	vRegister("ZZ_C13_Tables", ZZ_C13_Tables)
	vRegister("ZZ_C13_Placement", ZZ_C13_Placement)
	vRegister("ZZ_C13_Sweep", ZZ_C13_Sweep)
}

func zzWheel() (*Variable[int, int], *node.Manager[int, int]) {
	m := node.NewManager[int, int](node.Config{WithExpiration: true})
	return NewVariable(m), m
}

// ZZ_C13_Tables: the constants the arithmetic relies on (read from the executed package initialiser).
func ZZ_C13_Tables() {
	vAssert(len(buckets) == 5 && len(spans) == 6 && len(shift) == 5, "c13.tables.sizes")
	for i := 0; i < 5; i++ {
		vAssert(buckets[i]&(buckets[i]-1) == 0 && buckets[i] > 0, "c13.tables.buckets_pow2")
		vAssert(spans[i] == uint64(1)<<shift[i], "c13.tables.shift_is_log2_span")
	}
	for i := 0; i < 4; i++ {
		vAssert(spans[i+1] == buckets[i]*spans[i] || (i == 3 && spans[4] == buckets[3]*spans[3]), "c13.tables.span_chain")
	}
	vAssert(spans[0] > 1_000_000_000 && spans[0] < 1_100_000_000, "c13.tables.tick_about_1s")
	vAssert(spans[1] == 64*spans[0] && spans[2] == 64*spans[1] && spans[3] == 32*spans[2] && spans[4] == 4*spans[3], "c13.tables.spans")
}

// zzLevel is the level findBucket must choose for a deadline e at wheel time T (e >= T).
func zzLevel(T, e uint64) int {
	d := e - T
	for i := 0; i < 4; i++ {
		if d < spans[i+1] {
			return i
		}
	}
	return 4
}

// zzInv is the placement invariant for a node with deadline e filed at level L while the wheel time is T.
func zzInv(T, e uint64, L int) bool {
	tl, el := T>>shift[L], e>>shift[L]
	switch {
	case L == 0:
		return tl <= el && el <= tl+buckets[0]
	case L < 4:
		return tl < el && el <= tl+buckets[L]
	}
	return tl < el
}

func ZZ_C13_Placement() {
	v, m := zzWheel()
	T := vU64("T")
	e := vU64("e")
	vAssume(T < 1<<62 && e < 1<<62 && e >= T)
	v.time = T
	n := m.Create(1, 1, int64(e), math.MaxInt64, 1)
	root := v.findBucket(e)
	L := zzLevel(T, e)
	Lc := int(vConcrete(uint64(L)))
	want := v.wheel[Lc][(e>>shift[Lc])&(buckets[Lc]-1)]
	vAssert(root.AsPointer() == want.AsPointer(), "c13.placement.bucket")
	// for L >= 1 the deadline lies at least one level-(L-1) span ahead, hence strictly in a later tick
	if Lc == 0 || e-T >= spans[Lc] {
		vAssert(zzInv(T, e, Lc), "c13.placement.invariant")
	}
	vAssert(Lc == 0 || e-T >= spans[Lc], "c13.placement.level_lower_bound")
	// the real Add links it there
	v.Add(n)
	vAssert(want.NextExp().AsPointer() == n.AsPointer() && n.NextExp().AsPointer() == want.AsPointer(), "c13.placement.linked")
	if vParam("canary") == 1 {
		vAssert(Lc != 2, "c13.placement.canary")
	}
}

// zzFindLevel returns the level whose bucket for deadline e holds n (or -1).
func zzFindLevel(v *Variable[int, int], n node.Node[int, int], e uint64) int {
	for L := 0; L < 5; L++ {
		root := v.wheel[L][(e>>shift[L])&(buckets[L]-1)]
		if root.NextExp().AsPointer() == n.AsPointer() {
			return L
		}
	}
	return -1
}

// ZZ_C13_Sweep: one level's sweep, the real deleteExpiredFromBucket(L, prevTicks, delta, cb) exactly as
// DeleteExpired calls it (prevTicks = P>>shift[L], delta = C>>shift[L] - prevTicks, v.time = C).
// The slot the sweep starts at (prevTicks mod buckets[L]) is chosen by vChoice — the engine forks over all
// of them — so that loop indices are concrete while the high bits of P, C and the whole deadline e stay symbolic.
func ZZ_C13_Sweep() {
	v, m := zzWheel()
	L := vParam("level")
	maxDelta := uint64(vParam("maxdelta")) // bound on the number of level-L ticks the clock jumps (0 = unbounded)
	nb := int(buckets[L])
	s0 := uint64(vChoice("startslot", nb))
	hi := vU64("Phi")
	lo := vU64("Plo")
	vAssume(lo < spans[L])
	lb := uint64(0)
	for (uint64(1) << lb) < buckets[L] {
		lb++
	}
	vAssume(hi < (uint64(1)<<62)>>(shift[L]+lb))
	prevTicks := hi<<lb | s0
	P := prevTicks<<shift[L] | lo
	C := vU64("C")
	e := vU64("e")
	vAssume(C < 1<<62 && e < 1<<62 && e >= P && C >= P)
	vAssume(zzLevel(P, e) == L)
	vAssume(L == 0 || e-P >= spans[L]) // what placement guarantees (layer 1)
	delta := (C >> shift[L]) - prevTicks
	if maxDelta > 0 {
		vAssume(delta <= maxDelta)
	}
	v.time = P
	n := m.Create(1, 1, int64(e), math.MaxInt64, 1)
	v.Add(n)
	visited := true
	if vParam("extended") == 1 {
		// reads only ever extend deadlines, and the re-scheduling event of a read may be dropped by the lossy read
		// buffer: the timer still sits in the bucket of its old deadline e while the entry's deadline is now e2 >= e.
		// The sweep that reaches the old bucket must fire it iff e2 has passed, and otherwise re-file it under e2.
		e2 := vU64("e2")
		vAssume(e2 >= e && e2 < 1<<62)
		n.SetExpiresAt(int64(e2))
		mask := buckets[L] - 1
		steps := delta + 1
		if steps > buckets[L] {
			steps = buckets[L]
		}
		visited = delta != 0 && (((e>>shift[L])&mask)-s0)&mask < steps
		e = e2
	}
	fired := 0
	var firedPtr node.Node[int, int]
	var firedNow int64
	v.time = C
	if delta != 0 { // DeleteExpired breaks out of its level loop when delta == 0
		v.deleteExpiredFromBucket(L, prevTicks, delta, func(x node.Node[int, int], now int64) {
			fired++
			firedPtr = x
			firedNow = now
		})
	}
	vAssert(fired <= 1, "c13.sweep.at_most_once")
	if fired == 1 {
		vAssert(firedPtr.AsPointer() == n.AsPointer(), "c13.sweep.fires_the_tracked_node")
		vAssert(e < C, "c13.sweep.fires_only_expired")
		vAssert(uint64(firedNow) == C, "c13.sweep.callback_time")
		vAssert(node.Equals(n.NextExp(), nil) && node.Equals(n.PrevExp(), nil), "c13.sweep.fired_node_unlinked")
	} else {
		// progress: a deadline more than one tick before C must have fired
		vAssert(!(e+spans[0] < C), "c13.sweep.progress_within_one_tick")
		if visited {
			L2 := zzFindLevel(v, n, e)
			vAssert(L2 >= 0, "c13.sweep.unfired_node_still_linked")
			if L2 >= 0 {
				vAssert(zzInv(C, e, L2) || e < C, "c13.sweep.invariant_reestablished")
			}
		}
	}
	if vParam("canary") == 1 {
		vAssert(fired == 0, "c13.sweep.canary")
	}
}
