// Package sync (shim): the subset of the standard sync API the repository uses, with every operation preceded by
// zzsched.Turn so that a recorded schedule can be forced on the native build. Present only in `go test -overlay` builds
// made for the native replay of concurrent counterexamples.
package sync

import (
	rsync "sync"

	"github.com/maypok86/otter/v2/internal/zzsched"
)

type Locker = rsync.Locker

type Mutex struct{ m rsync.Mutex }

func (m *Mutex) Lock()         { zzsched.Turn("mutex.lock"); m.m.Lock() }
func (m *Mutex) Unlock()       { zzsched.Turn("mutex.unlock"); m.m.Unlock() }
func (m *Mutex) TryLock() bool { zzsched.Turn("mutex.trylock"); return m.m.TryLock() }

type RWMutex struct{ m rsync.RWMutex }

func (m *RWMutex) Lock()    { zzsched.Turn("mutex.lock"); m.m.Lock() }
func (m *RWMutex) Unlock()  { zzsched.Turn("mutex.unlock"); m.m.Unlock() }
func (m *RWMutex) RLock()   { zzsched.Turn("rwmutex.rlock"); m.m.RLock() }
func (m *RWMutex) RUnlock() { zzsched.Turn("rwmutex.runlock"); m.m.RUnlock() }

type WaitGroup struct{ w rsync.WaitGroup }

func (w *WaitGroup) Add(n int) { zzsched.Turn("wg.add"); w.w.Add(n) }
func (w *WaitGroup) Done()     { zzsched.Turn("wg.done"); w.w.Done() }
func (w *WaitGroup) Wait()     { zzsched.Turn("wg.wait"); w.w.Wait() }

type Once struct{ o rsync.Once }

func (o *Once) Do(f func()) { zzsched.Turn("once.do"); o.o.Do(f) }

// Pool never reuses an object (the engine's default model of sync.Pool: Get returns nil).
type Pool struct {
	New func() any
}

func (p *Pool) Get() any {
	if p.New != nil {
		return p.New()
	}
	return nil
}
func (p *Pool) Put(x any) {}

type Cond = rsync.Cond

func NewCond(l Locker) *Cond { return rsync.NewCond(l) }

type Map = rsync.Map
