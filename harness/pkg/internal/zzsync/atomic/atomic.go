// Package atomic (shim): the subset of sync/atomic the repository uses, every operation preceded by zzsched.Turn.
package atomic

import (
	ratomic "sync/atomic"
	"unsafe"

	"github.com/maypok86/otter/v2/internal/zzsched"
)

type Uint64 struct{ v ratomic.Uint64 }

func (x *Uint64) Load() uint64           { zzsched.Turn("atomic.load"); return x.v.Load() }
func (x *Uint64) Store(v uint64)         { zzsched.Turn("atomic.store"); x.v.Store(v) }
func (x *Uint64) Swap(v uint64) uint64   { zzsched.Turn("atomic.swap"); return x.v.Swap(v) }
func (x *Uint64) Add(d uint64) uint64    { zzsched.Turn("atomic.rmw"); return x.v.Add(d) }
func (x *Uint64) And(m uint64) uint64    { zzsched.Turn("atomic.rmw"); return x.v.And(m) }
func (x *Uint64) Or(m uint64) uint64     { zzsched.Turn("atomic.rmw"); return x.v.Or(m) }
func (x *Uint64) CompareAndSwap(o, n uint64) bool {
	zzsched.Turn("atomic.cas")
	return x.v.CompareAndSwap(o, n)
}

type Uint32 struct{ v ratomic.Uint32 }

func (x *Uint32) Load() uint32         { zzsched.Turn("atomic.load"); return x.v.Load() }
func (x *Uint32) Store(v uint32)       { zzsched.Turn("atomic.store"); x.v.Store(v) }
func (x *Uint32) Swap(v uint32) uint32 { zzsched.Turn("atomic.swap"); return x.v.Swap(v) }
func (x *Uint32) Add(d uint32) uint32  { zzsched.Turn("atomic.rmw"); return x.v.Add(d) }
func (x *Uint32) And(m uint32) uint32  { zzsched.Turn("atomic.rmw"); return x.v.And(m) }
func (x *Uint32) Or(m uint32) uint32   { zzsched.Turn("atomic.rmw"); return x.v.Or(m) }
func (x *Uint32) CompareAndSwap(o, n uint32) bool {
	zzsched.Turn("atomic.cas")
	return x.v.CompareAndSwap(o, n)
}

type Int64 struct{ v ratomic.Int64 }

func (x *Int64) Load() int64         { zzsched.Turn("atomic.load"); return x.v.Load() }
func (x *Int64) Store(v int64)       { zzsched.Turn("atomic.store"); x.v.Store(v) }
func (x *Int64) Swap(v int64) int64  { zzsched.Turn("atomic.swap"); return x.v.Swap(v) }
func (x *Int64) Add(d int64) int64   { zzsched.Turn("atomic.rmw"); return x.v.Add(d) }
func (x *Int64) CompareAndSwap(o, n int64) bool {
	zzsched.Turn("atomic.cas")
	return x.v.CompareAndSwap(o, n)
}

type Int32 struct{ v ratomic.Int32 }

func (x *Int32) Load() int32         { zzsched.Turn("atomic.load"); return x.v.Load() }
func (x *Int32) Store(v int32)       { zzsched.Turn("atomic.store"); x.v.Store(v) }
func (x *Int32) Swap(v int32) int32  { zzsched.Turn("atomic.swap"); return x.v.Swap(v) }
func (x *Int32) Add(d int32) int32   { zzsched.Turn("atomic.rmw"); return x.v.Add(d) }
func (x *Int32) CompareAndSwap(o, n int32) bool {
	zzsched.Turn("atomic.cas")
	return x.v.CompareAndSwap(o, n)
}

type Bool struct{ v ratomic.Bool }

func (x *Bool) Load() bool        { zzsched.Turn("atomic.load"); return x.v.Load() }
func (x *Bool) Store(v bool)      { zzsched.Turn("atomic.store"); x.v.Store(v) }
func (x *Bool) Swap(v bool) bool  { zzsched.Turn("atomic.swap"); return x.v.Swap(v) }
func (x *Bool) CompareAndSwap(o, n bool) bool {
	zzsched.Turn("atomic.cas")
	return x.v.CompareAndSwap(o, n)
}

type Pointer[T any] struct{ v ratomic.Pointer[T] }

func (x *Pointer[T]) Load() *T       { zzsched.Turn("atomic.load"); return x.v.Load() }
func (x *Pointer[T]) Store(v *T)     { zzsched.Turn("atomic.store"); x.v.Store(v) }
func (x *Pointer[T]) Swap(v *T) *T   { zzsched.Turn("atomic.swap"); return x.v.Swap(v) }
func (x *Pointer[T]) CompareAndSwap(o, n *T) bool {
	zzsched.Turn("atomic.cas")
	return x.v.CompareAndSwap(o, n)
}

type Value struct{ v ratomic.Value }

func (x *Value) Load() any   { zzsched.Turn("atomic.load"); return x.v.Load() }
func (x *Value) Store(v any) { zzsched.Turn("atomic.store"); x.v.Store(v) }

func LoadPointer(p *unsafe.Pointer) unsafe.Pointer {
	zzsched.Turn("atomic.load")
	return ratomic.LoadPointer(p)
}
func StorePointer(p *unsafe.Pointer, v unsafe.Pointer) {
	zzsched.Turn("atomic.store")
	ratomic.StorePointer(p, v)
}
func SwapPointer(p *unsafe.Pointer, v unsafe.Pointer) unsafe.Pointer {
	zzsched.Turn("atomic.swap")
	return ratomic.SwapPointer(p, v)
}
func CompareAndSwapPointer(p *unsafe.Pointer, o, n unsafe.Pointer) bool {
	zzsched.Turn("atomic.cas")
	return ratomic.CompareAndSwapPointer(p, o, n)
}
func LoadUint64(p *uint64) uint64     { zzsched.Turn("atomic.load"); return ratomic.LoadUint64(p) }
func StoreUint64(p *uint64, v uint64) { zzsched.Turn("atomic.store"); ratomic.StoreUint64(p, v) }
func AddUint64(p *uint64, d uint64) uint64 {
	zzsched.Turn("atomic.rmw")
	return ratomic.AddUint64(p, d)
}
func CompareAndSwapUint64(p *uint64, o, n uint64) bool {
	zzsched.Turn("atomic.cas")
	return ratomic.CompareAndSwapUint64(p, o, n)
}
func LoadInt64(p *int64) int64     { zzsched.Turn("atomic.load"); return ratomic.LoadInt64(p) }
func StoreInt64(p *int64, v int64) { zzsched.Turn("atomic.store"); ratomic.StoreInt64(p, v) }
func AddInt64(p *int64, d int64) int64 {
	zzsched.Turn("atomic.rmw")
	return ratomic.AddInt64(p, d)
}
func CompareAndSwapInt64(p *int64, o, n int64) bool {
	zzsched.Turn("atomic.cas")
	return ratomic.CompareAndSwapInt64(p, o, n)
}
func LoadUint32(p *uint32) uint32     { zzsched.Turn("atomic.load"); return ratomic.LoadUint32(p) }
func StoreUint32(p *uint32, v uint32) { zzsched.Turn("atomic.store"); ratomic.StoreUint32(p, v) }
func AddUint32(p *uint32, d uint32) uint32 {
	zzsched.Turn("atomic.rmw")
	return ratomic.AddUint32(p, d)
}
func CompareAndSwapUint32(p *uint32, o, n uint32) bool {
	zzsched.Turn("atomic.cas")
	return ratomic.CompareAndSwapUint32(p, o, n)
}
func LoadInt32(p *int32) int32     { zzsched.Turn("atomic.load"); return ratomic.LoadInt32(p) }
func StoreInt32(p *int32, v int32) { zzsched.Turn("atomic.store"); ratomic.StoreInt32(p, v) }
func AddInt32(p *int32, d int32) int32 {
	zzsched.Turn("atomic.rmw")
	return ratomic.AddInt32(p, d)
}
func CompareAndSwapInt32(p *int32, o, n int32) bool {
	zzsched.Turn("atomic.cas")
	return ratomic.CompareAndSwapInt32(p, o, n)
}
