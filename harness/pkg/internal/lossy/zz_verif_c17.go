package lossy

// C17 — the lossy read buffer may drop reads but never corrupts them.
// Seq: ring from every wrap position, up to 17 adds and drains (Full exactly at 16, drained = added, slots nil).
// (B): producers and the draining consumer as engine threads; every atomic operation is a scheduling point;
// delivered ⊆ successfully added, no duplicates, every Success delivered by the final drain, tail-head <= 16.

import (
	"math"
	"sync/atomic"

	"github.com/maypok86/otter/v2/internal/generated/node"
)

func init() {
	vRegister("ZZ_C17_RingSeq", ZZ_C17_RingSeq)
	vRegister("ZZ_C17_RingPar", ZZ_C17_RingPar)
	vRegister("ZZ_C17_StripedSeq", ZZ_C17_StripedSeq)
	vRegister("ZZ_C17_StripedPar", ZZ_C17_StripedPar)
}

func zzMgr() *node.Manager[int, int] {
	return node.NewManager[int, int](node.Config{WithSize: true})
}

func zzRingAt(m *node.Manager[int, int], pos uint64) *ring[int, int] {
	r := &ring[int, int]{nodeManager: m}
	r.head.Store(pos)
	r.tail.Store(pos)
	return r
}

var zzStartPositions = []uint64{0, 1, 15, 16, 17, 1<<32 - 1, math.MaxUint64 - 1, math.MaxUint64}

func ZZ_C17_RingSeq() {
	m := zzMgr()
	pos := zzStartPositions[vChoice("start", len(zzStartPositions))]
	r := zzRingAt(m, pos)
	n := vChoice("adds", 18) // 0..17
	var nodes [18]node.Node[int, int]
	ok := 0
	for i := 0; i < n; i++ {
		nodes[i] = m.Create(i+1, i+1, 0, 0, 1)
		st := r.add(nodes[i])
		if i < bufferSize {
			vAssert(st == Success, "c17.seq.add_succeeds_below_capacity")
			ok++
		} else {
			vAssert(st == Full, "c17.seq.full_exactly_at_16")
		}
		vAssert(r.len() == ok, "c17.seq.len_exact")
	}
	var got []int
	r.drainTo(func(x node.Node[int, int]) { got = append(got, x.Key()) })
	vAssert(len(got) == ok, "c17.seq.drained_count")
	for i := 0; i < len(got); i++ {
		vAssert(got[i] == i+1, "c17.seq.drained_in_order_exactly_once")
	}
	vAssert(r.len() == 0, "c17.seq.empty_after_drain")
	for i := 0; i < bufferSize; i++ {
		vAssert(r.buffer[i] == nil, "c17.seq.slots_nil_after_drain")
	}
	// a second round reuses the slots (wrap-around) without duplicates
	x := m.Create(99, 99, 0, 0, 1)
	vAssert(r.add(x) == Success, "c17.seq.add_after_drain")
	cnt := 0
	r.drainTo(func(y node.Node[int, int]) {
		cnt++
		vAssert(y.Key() == 99, "c17.seq.second_round_value")
	})
	vAssert(cnt == 1, "c17.seq.second_round_once")
	if vParam("canary") == 1 {
		vAssert(n < 17, "c17.seq.canary")
	}
}

func ZZ_C17_RingPar() {
	m := zzMgr()
	pos := zzStartPositions[vChoice("start", len(zzStartPositions))]
	r := zzRingAt(m, pos)
	pre := vParam("prefill") // entries already in the ring (15 = one free slot: producers race for it)
	delivered := map[int]int{}
	succeeded := map[int]bool{}
	for i := 0; i < pre; i++ {
		k := 100 + i
		vAssert(r.add(m.Create(k, k, 0, 0, 1)) == Success, "c17.par.prefill")
		succeeded[k] = true
	}
	consume := func(x node.Node[int, int]) { delivered[x.Key()]++ }
	adds := vParam("adds_per_producer")
	prod := func(base int) func() {
		return func() {
			for i := 0; i < adds; i++ {
				k := base + i
				st := r.add(m.Create(k, k, 0, 0, 1))
				if st == Success {
					succeeded[k] = true
				}
				vAtomic(func() {
					vAssert(r.tail.Load()-r.head.Load() <= bufferSize, "c17.par.never_more_than_capacity")
				})
			}
		}
	}
	cons := func() { r.drainTo(consume) }
	switch vParam("producers") {
	case 2:
		vPar(prod(10), prod(20), cons)
	default:
		vPar(prod(10), prod(20), prod(30), cons)
	}
	// quiescent: a final drain delivers every successfully recorded entry
	r.drainTo(consume)
	for k, n := range delivered {
		vAssert(n == 1, "c17.par.delivered_at_most_once")
		vAssert(succeeded[k], "c17.par.delivered_only_if_recorded")
	}
	for k := range succeeded {
		vAssert(delivered[k] == 1, "c17.par.every_success_delivered_at_quiescence")
	}
	vAssert(r.len() == 0, "c17.par.empty_at_quiescence")
	if vParam("canary") == 1 {
		vAssert(len(delivered) == pre+2*adds, "c17.par.canary")
	}
}

func ZZ_C17_StripedSeq() {
	m := zzMgr()
	s := NewStriped(vParam("maxlen"), m)
	delivered := map[int]int{}
	succeeded := map[int]bool{}
	n := vParam("adds")
	for i := 0; i < n; i++ {
		k := i + 1
		st := s.Add(m.Create(k, k, 0, 0, 1))
		vAssert(st == Success || st == Failed || st == Full, "c17.striped.seq.status_range")
		if st == Success {
			succeeded[k] = true
		}
		if i == 0 {
			vAssert(st == Success, "c17.striped.seq.first_add_creates_table")
		}
	}
	vAssert(s.busy.Load() == 0, "c17.striped.seq.busy_released")
	if bs := s.striped.Load(); bs != nil {
		vAssert(bs.len <= s.maxLen && bs.len >= 1 && bs.len&(bs.len-1) == 0, "c17.striped.seq.len_pow2_within_max")
	}
	vAssert(s.Len() == len(succeeded), "c17.striped.seq.len_counts_successes")
	s.DrainTo(func(x node.Node[int, int]) { delivered[x.Key()]++ })
	for k, c := range delivered {
		vAssert(c == 1 && succeeded[k], "c17.striped.seq.delivered_once_and_only_recorded")
	}
	for k := range succeeded {
		vAssert(delivered[k] == 1, "c17.striped.seq.every_success_delivered")
	}
}

func ZZ_C17_StripedPar() {
	m := zzMgr()
	s := NewStriped(vParam("maxlen"), m)
	delivered := map[int]int{}
	succeeded := map[int]bool{}
	pre := vParam("pre")
	for i := 0; i < pre; i++ {
		k := 100 + i
		if s.Add(m.Create(k, k, 0, 0, 1)) == Success {
			succeeded[k] = true
		}
	}
	consume := func(x node.Node[int, int]) { delivered[x.Key()]++ }
	prod := func(k int) func() {
		return func() {
			if s.Add(m.Create(k, k, 0, 0, 1)) == Success {
				succeeded[k] = true
			}
		}
	}
	vPar(prod(1), prod(2), func() { s.DrainTo(consume) })
	vAssert(s.busy.Load() == 0, "c17.striped.par.busy_released")
	if bs := s.striped.Load(); bs != nil {
		vAssert(bs.len <= s.maxLen, "c17.striped.par.at_most_maxlen_stripes")
	}
	s.DrainTo(consume)
	for k, c := range delivered {
		vAssert(c == 1, "c17.striped.par.delivered_at_most_once")
		vAssert(succeeded[k], "c17.striped.par.delivered_only_if_recorded")
	}
	for k := range succeeded {
		vAssert(delivered[k] == 1, "c17.striped.par.no_ring_lost_every_success_delivered")
	}
}

func init() { vRegister("ZZ_C17_StripedState", ZZ_C17_StripedState) }

// ZZ_C17_StripedState: the striped table constructed directly in any sparse shape (every subset of 4 stripes
// populated, as left behind by lazy stripe creation after two expansions), then one more Add whose stripe is chosen
// by the (symbolic) random token, then DrainTo: every successfully recorded entry is delivered exactly once and
// Len() returns to zero.
func ZZ_C17_StripedState() {
	m := zzMgr()
	s := NewStriped(4, m)
	n := vParam("stripes")
	maskSel := 1 + vChoice("populated", (1<<n)-1)
	st := &striped[int, int]{buffers: make([]atomic.Pointer[ring[int, int]], n), len: n}
	succeeded := map[int]bool{}
	for i := 0; i < n; i++ {
		if maskSel&(1<<i) != 0 {
			k := 10 * (i + 1)
			r := newRing(m, m.Create(k, k, 0, 0, 1))
			succeeded[k] = true
			if r.add(m.Create(k+1, k+1, 0, 0, 1)) == Success {
				succeeded[k+1] = true
			}
			st.buffers[i].Store(r)
		}
	}
	s.striped.Store(st)
	if s.Add(m.Create(99, 99, 0, 0, 1)) == Success {
		succeeded[99] = true
	}
	vAssert(s.Len() == len(succeeded), "c17.state.len_counts_every_stripe")
	delivered := map[int]int{}
	s.DrainTo(func(x node.Node[int, int]) { delivered[x.Key()]++ })
	for k := range succeeded {
		vAssert(delivered[k] == 1, "c17.state.every_recorded_entry_delivered_from_every_stripe")
	}
	for k, c := range delivered {
		vAssert(c == 1 && succeeded[k], "c17.state.delivered_once_and_only_recorded")
	}
	vAssert(s.Len() == 0, "c17.state.empty_after_drain")
}

func init() { vRegister("ZZ_C17_StripedGrow", ZZ_C17_StripedGrow) }

// ZZ_C17_StripedGrow: the table starts with two stripes, one populated and one empty (as lazy stripe creation leaves it);
// `producers` threads add one entry each with symbolic random tokens, so that within the pre-emption bound one producer
// can be attaching a ring to the empty stripe while contention between the others (two lost CASes on a ring's tail)
// doubles the table under the busy flag. Afterwards: the busy flag is free, at most maxLen stripes, and every
// successfully recorded entry is delivered exactly once by a drain of the *current* table (a ring attached to a table
// that was replaced meanwhile would be lost).
func ZZ_C17_StripedGrow() {
	m := zzMgr()
	s := NewStriped(4, m)
	st := &striped[int, int]{buffers: make([]atomic.Pointer[ring[int, int]], 2), len: 2}
	succeeded := map[int]bool{10: true}
	st.buffers[0].Store(newRing(m, m.Create(10, 10, 0, 0, 1)))
	if vParam("stripe1") == 1 {
		// the second stripe holds a ring that has been drained (present but empty), as after a maintenance run
		r1 := newRing(m, m.Create(11, 11, 0, 0, 1))
		r1.drainTo(func(x node.Node[int, int]) {})
		st.buffers[1].Store(r1)
	}
	s.striped.Store(st)
	prod := func(k int) func() {
		return func() {
			if s.Add(m.Create(k, k, 0, 0, 1)) == Success {
				vAtomic(func() { succeeded[k] = true })
			}
		}
	}
	// retry(k): a producer that enters expandOrRetry directly (in-package), as Add does after its first attempt on the
	// stripe's ring has failed: one more lost CAS there and it doubles the table (two lost CASes through Add would need
	// a fourth thread and a third pre-emption)
	retry := func(k int) func() {
		return func() {
			t := &token{idx: vU32("tokenidx")}
			if s.expandOrRetry(m.Create(k, k, 0, 0, 1), t, true) == Success {
				vAtomic(func() { succeeded[k] = true })
			}
		}
	}
	if vParam("producers") == 3 {
		vPar(prod(1), retry(2), prod(3))
	} else {
		vPar(prod(1), retry(2), prod(3), prod(4))
	}
	vAssert(s.busy.Load() == 0, "c17.grow.busy_released")
	bs := s.striped.Load()
	vAssert(bs.len <= s.maxLen && bs.len >= 2, "c17.grow.at_most_maxlen_stripes")
	delivered := map[int]int{}
	s.DrainTo(func(x node.Node[int, int]) { delivered[x.Key()]++ })
	for k, c := range delivered {
		vAssert(c == 1, "c17.grow.delivered_at_most_once")
		vAssert(succeeded[k], "c17.grow.delivered_only_if_recorded")
	}
	for k := range succeeded {
		vAssert(delivered[k] == 1, "c17.grow.no_ring_lost_every_success_delivered")
	}
	if bs.len > 2 {
		vReach("c17.grow.table_doubled")
	}
}
