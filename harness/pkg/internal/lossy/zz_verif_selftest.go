package lossy

import "github.com/maypok86/otter/v2/internal/generated/node"

func init() { vRegister("ZZ_Selftest_Ring", ZZ_Selftest_Ring) }

// ring_test.go / striped_test.go shapes: add to overflow, drain, add again, striped add and drain.
func ZZ_Selftest_Ring() {
	m := zzMgr()
	r := newRing(m, m.Create(1, 1, 0, 0, 1))
	for i := 2; i <= 20; i++ {
		st := r.add(m.Create(i, i, 0, 0, 1))
		vTrace("add", uint64(int64(st)+10))
	}
	vTrace("len", uint64(r.len()))
	r.drainTo(func(n node.Node[int, int]) { vTrace("drain", uint64(n.Key())) })
	vTrace("len.after", uint64(r.len()))
	for i := 30; i < 35; i++ {
		r.add(m.Create(i, i, 0, 0, 1))
	}
	r.drainTo(func(n node.Node[int, int]) { vTrace("drain2", uint64(n.Key())) })
	s := NewStriped(4, m)
	for i := 0; i < 20; i++ {
		st := s.Add(m.Create(100+i, i, 0, 0, 1))
		vTrace("sadd", uint64(int64(st)+10))
	}
	vTrace("slen", uint64(s.Len()))
	s.DrainTo(func(n node.Node[int, int]) { vTrace("sdrain", uint64(n.Key())) })
	vTrace("slen.after", uint64(s.Len()))
}
