package hashmap

func init() { vRegister("ZZ_Selftest_Map", ZZ_Selftest_Map) }

// map_test.go shapes: int set, set then delete, growth past the load factor, shrink, range, clear.
func ZZ_Selftest_Map() {
	m := zzNewMap(0)
	for i := 0; i < 200; i++ {
		zzPut(m, i, i*3)
	}
	vTrace("size", uint64(m.Size()))
	vTrace("buckets", uint64(len(m.table.Load().buckets)))
	vTrace("growths", uint64(m.totalGrowths.Load()))
	for i := 0; i < 210; i += 7 {
		n := m.Get(i)
		if n == nil {
			vTrace("miss", uint64(i))
		} else {
			vTrace("get", uint64(n.v))
		}
	}
	sum := 0
	cnt := 0
	m.Range(func(n *zzNode) bool { sum += n.k; cnt++; return true })
	vTrace("range.cnt", uint64(cnt))
	vTrace("range.sum", uint64(sum))
	for i := 0; i < 200; i++ {
		if i%10 != 0 {
			zzDel(m, i)
		}
	}
	vTrace("size.after.delete", uint64(m.Size()))
	vTrace("buckets.after.delete", uint64(len(m.table.Load().buckets)))
	vTrace("shrinks", uint64(m.totalShrinks.Load()))
	for i := 0; i < 200; i += 5 {
		if m.Get(i) != nil {
			vTrace("left", uint64(i))
		}
	}
	m.Clear()
	vTrace("size.after.clear", uint64(m.Size()))
	vTrace("buckets.after.clear", uint64(len(m.table.Load().buckets)))
}
