package hashmap

// C15 — concurrent table: nothing lost across resizes, weakly consistent iteration.
// Lemmas on the SWAR meta word (symbolic), functional check on a collision chain with symbolic hashes,
// grow/shrink/clear with a map oracle, and (B) schedules: Get || Compute, Compute || Compute, resize || Get/Compute.

import "unsafe"

func init() {
	vRegister("ZZ_C15_Lemmas", ZZ_C15_Lemmas)
	vRegister("ZZ_C15_Chain", ZZ_C15_Chain)
	vRegister("ZZ_C15_Resize", ZZ_C15_Resize)
	vRegister("ZZ_C15_Par", ZZ_C15_Par)
}

type zzNode struct {
	k, v int
}

func (n *zzNode) Key() int                  { return n.k }
func (n *zzNode) Value() int                { return n.v }
func (n *zzNode) AsPointer() unsafe.Pointer { return unsafe.Pointer(n) }

type zzMgr struct{}

func (zzMgr) FromPointer(p unsafe.Pointer) *zzNode { return (*zzNode)(p) }
func (zzMgr) IsNil(n *zzNode) bool                 { return n == nil }

func zzNewMap(size int) *Map[int, int, *zzNode] {
	return NewWithSize[int, int, *zzNode](zzMgr{}, size)
}

// ZZ_C15_Lemmas: for every meta word whose five low bytes are 0x80 (empty) or a 7-bit tag, and every tag h2:
// the probe marks every slot whose tag equals h2 (no false negative), only slots 0..4, the first marked index
// is a slot, and setByte changes exactly one byte.
func ZZ_C15_Lemmas() {
	var bs [8]uint8
	meta := uint64(0)
	for i := 0; i < 8; i++ {
		bs[i] = vU8("metabyte")
		if i < nodesPerMapBucket {
			vAssume(bs[i] == emptyMetaSlot || bs[i] < 0x80)
		} else {
			vAssume(bs[i] == emptyMetaSlot)
		}
		meta |= uint64(bs[i]) << (8 * i)
	}
	h := vU64("hash")
	tag := h2(h)
	vAssert(tag < 0x80, "c15.lemma.tag_is_7_bits")
	vAssert(h1(h)<<7|uint64(tag) == h, "c15.lemma.h1_h2_partition_the_hash")
	marked := markZeroBytes(meta^broadcast(tag)) & metaMask
	for i := 0; i < nodesPerMapBucket; i++ {
		if bs[i] == tag {
			vAssert(marked&(uint64(0x80)<<(8*i)) != 0, "c15.lemma.no_false_negative")
		}
	}
	vAssert(marked&^metaMask == 0, "c15.lemma.only_slots_0_to_4")
	if marked != 0 {
		idx := firstMarkedByteIndex(marked)
		vAssert(idx >= 0 && idx < nodesPerMapBucket, "c15.lemma.first_marked_is_a_slot")
		vAssert(marked&(uint64(0x80)<<(8*idx)) != 0, "c15.lemma.first_marked_is_marked")
	}
	// empty-slot search
	emptyw := meta & defaultMetaMasked
	if emptyw != 0 {
		idx := firstMarkedByteIndex(emptyw)
		vAssert(idx < nodesPerMapBucket && bs[idx] == emptyMetaSlot, "c15.lemma.empty_search_finds_empty_slot")
	} else {
		for i := 0; i < nodesPerMapBucket; i++ {
			vAssert(bs[i] != emptyMetaSlot, "c15.lemma.empty_search_complete")
		}
	}
	// setByte
	slot := vChoice("slot", nodesPerMapBucket)
	nb := vU8("newbyte")
	w2 := setByte(meta, nb, slot)
	for i := 0; i < 8; i++ {
		got := uint8(w2 >> (8 * i))
		if i == slot {
			vAssert(got == nb, "c15.lemma.setbyte_sets")
		} else {
			vAssert(got == bs[i], "c15.lemma.setbyte_leaves_others")
		}
	}
	if vParam("canary") == 1 {
		vAssert(marked == 0, "c15.lemma.canary")
	}
}

func zzPut(m *Map[int, int, *zzNode], k, v int) {
	m.Compute(k, func(old *zzNode) *zzNode { return &zzNode{k, v} })
}

func zzDel(m *Map[int, int, *zzNode], k int) {
	m.Compute(k, func(old *zzNode) *zzNode { return nil })
}

// zzAudit compares the table with the model: Get, Size, Range (each key once).
func zzAudit(m *Map[int, int, *zzNode], model map[int]int, keys []int, tag string) {
	for _, k := range keys {
		n := m.Get(k)
		v, ok := model[k]
		if ok {
			vAssert(n != nil && n.k == k && n.v == v, tag+".inserted_key_found")
		} else {
			vAssert(n == nil, tag+".absent_key_not_found")
		}
	}
	vAssert(m.Size() == len(model), tag+".size_equals_keys")
	seen := map[int]int{}
	m.Range(func(n *zzNode) bool { seen[n.k]++; return true })
	for k, c := range seen {
		_, ok := model[k]
		vAssert(c == 1 && ok, tag+".range_yields_present_keys_once")
	}
	vAssert(len(seen) == len(model), tag+".range_yields_every_key")
}

// ZZ_C15_Chain: n keys whose hashes are symbolic but land in one root bucket (tags free: equal-tag and
// distinct-tag collisions both occur, the sixth key allocates an overflow bucket); then one more operation.
func ZZ_C15_Chain() {
	vHashMode(1)
	m := zzNewMap(0)
	n := vParam("keys")
	table := m.table.Load()
	keys := make([]int, 0, n+1)
	for i := 1; i <= n+1; i++ {
		h := table.hasher.Hash(i)
		vAssume(h1(h)&31 == 0)
		if vParam("sametag") == 1 && i > 1 {
			vAssume(h2(h) == h2(table.hasher.Hash(1)))
		}
		keys = append(keys, i)
	}
	model := map[int]int{}
	for i := 1; i <= n; i++ {
		zzPut(m, i, 10*i)
		model[i] = 10 * i
	}
	zzAudit(m, model, keys, "c15.chain.filled")
	j := 1 + vChoice("target", n+1)
	calls := 0
	var sawOld *zzNode
	switch vChoice("op", 3) {
	case 0: // write
		m.Compute(j, func(old *zzNode) *zzNode { calls++; sawOld = old; return &zzNode{j, 777} })
		model[j] = 777
	case 1: // delete
		m.Compute(j, func(old *zzNode) *zzNode { calls++; sawOld = old; return nil })
		delete(model, j)
	case 2: // no-op (return what was there)
		m.Compute(j, func(old *zzNode) *zzNode { calls++; sawOld = old; return old })
	}
	vAssert(calls == 1, "c15.chain.callback_exactly_once")
	if j <= n {
		vAssert(sawOld != nil && sawOld.k == j && sawOld.v == 10*j, "c15.chain.callback_sees_current_node")
	} else {
		vAssert(sawOld == nil, "c15.chain.callback_sees_nil_for_absent_key")
	}
	zzAudit(m, model, keys, "c15.chain.after")
	if vParam("canary") == 1 {
		vAssert(m.Size() != n, "c15.chain.canary")
	}
}

// zzColliding returns n keys that fall into root bucket 0 of the map's current table (concrete hash mode).
func zzColliding(m *Map[int, int, *zzNode], n int) []int {
	t := m.table.Load()
	var ks []int
	for k := 1; len(ks) < n && k < 100000; k++ {
		if uint64(len(t.buckets)-1)&h1(t.hasher.Hash(k)) == 0 {
			ks = append(ks, k)
		}
	}
	return ks
}

// ZZ_C15_Resize: grow (full root bucket + in-package bump of the size counter), later shrink and Clear, with the
// map oracle after each; InitialCapacity sizing.
func ZZ_C15_Resize() {
	size := vParam("size")
	m := zzNewMap(size)
	t0 := m.table.Load()
	want := defaultMinMapTableLen
	if size > defaultMinMapTableLen*nodesPerMapBucket {
		want = 1
		for float64(want) < (float64(size)/nodesPerMapBucket)/mapLoadFactor {
			want <<= 1
		}
	}
	vAssert(len(t0.buckets) == want, "c15.resize.initial_table_len")
	if want > 64 {
		return // tables beyond 64 buckets: sizing arithmetic only
	}
	ks := zzColliding(m, 7)
	model := map[int]int{}
	for _, k := range ks[:5] {
		zzPut(m, k, k+1)
		model[k] = k + 1
	}
	zzAudit(m, model, ks, "c15.resize.before")
	// make the table look loaded so that the next insert into the full chain takes the grow path
	t0.addSizePlain(1, int(float64(len(t0.buckets))*nodesPerMapBucket*mapLoadFactor)+1)
	applied := 0
	m.Compute(ks[5], func(old *zzNode) *zzNode {
		applied++
		vAssert(old == nil, "c15.resize.growing_insert_sees_absent_key")
		return &zzNode{ks[5], ks[5] + 1}
	})
	vAssert(applied == 1, "c15.resize.update_function_exactly_once_across_growth")
	model[ks[5]] = ks[5] + 1
	t1 := m.table.Load()
	vAssert(t1 != t0 && len(t1.buckets) == 2*len(t0.buckets), "c15.resize.grew")
	vAssert(m.totalGrowths.Load() == 1, "c15.resize.growth_counted")
	// the new table counts the nodes actually copied (the artificial load stayed behind); audit under the NEW hasher
	zzAudit(m, model, ks, "c15.resize.after_grow")
	zzPut(m, ks[6], ks[6]+1)
	model[ks[6]] = ks[6] + 1
	zzAudit(m, model, ks, "c15.resize.after_grow_insert")
	// delete everything: the last deletions of a bucket take the shrink path
	for _, k := range ks {
		zzDel(m, k)
		delete(model, k)
		zzAudit(m, model, ks, "c15.resize.deleting")
	}
	t2 := m.table.Load()
	vAssert(len(t2.buckets) >= m.minTableLen, "c15.resize.never_below_min")
	vAssert(len(t2.buckets) == len(t0.buckets), "c15.resize.shrunk_back")
	for _, k := range ks[:3] {
		zzPut(m, k, 5)
		model[k] = 5
	}
	m.Clear()
	zzAudit(m, map[int]int{}, ks, "c15.resize.after_clear")
}

// ZZ_C15_Par: schedules.
func ZZ_C15_Par() {
	sc := vParam("scenario")
	if sc == 4 {
		zzC15ParallelResize()
		return
	}
	if sc == 5 {
		zzC15ShrinkVsInsert()
		return
	}
	m := zzNewMap(0)
	ks := zzColliding(m, 7)
	for _, k := range ks[:vParam("prefill")] {
		zzPut(m, k, k+1)
	}
	pre := vParam("prefill")
	switch sc {
	case 0: // Get || Compute(update|delete|insert) in the same chain
		target := ks[0]
		var got *zzNode
		op := vChoice("writer", 3)
		other := ks[pre] // absent key, same chain
		vPar(func() { got = m.Get(target) }, func() {
			switch op {
			case 0:
				zzPut(m, ks[1], 4242) // update a neighbour
			case 1:
				zzDel(m, ks[1]) // delete a neighbour
			case 2:
				zzPut(m, other, 9) // insert into the chain
			}
		})
		vAssert(got != nil && got.k == target && got.v == target+1, "c15.par.key_present_throughout_is_found")
	case 1: // Compute || Compute on the same key: increments are not lost, callbacks once each
		target := ks[0]
		c1, c2 := 0, 0
		inc := func(cnt *int) func() {
			return func() {
				m.Compute(target, func(old *zzNode) *zzNode { *cnt++; return &zzNode{target, old.v + 1} })
			}
		}
		vPar(inc(&c1), inc(&c2))
		vAssert(c1 == 1 && c2 == 1, "c15.par.update_function_exactly_once")
		vAssert(m.Get(target).v == target+3, "c15.par.concurrent_updates_not_lost")
	case 2: // insert that triggers grow || Get of a present key || Compute of another key
		t0 := m.table.Load()
		t0.addSizePlain(1, int(float64(len(t0.buckets))*nodesPerMapBucket*mapLoadFactor)+1)
		var got *zzNode
		applied := 0
		vPar(func() {
			m.Compute(ks[5], func(old *zzNode) *zzNode { applied++; return &zzNode{ks[5], 55} })
		}, func() { got = m.Get(ks[0]) }, func() { zzPut(m, 100001, 7) })
		vAssert(applied == 1, "c15.par.update_function_exactly_once_across_growth")
		vAssert(got != nil && got.v == ks[0]+1, "c15.par.get_during_resize_finds_present_key")
		vAssert(m.Get(ks[5]) != nil && m.Get(ks[5]).v == 55, "c15.par.insert_that_grew_is_present")
		vAssert(m.Get(100001) != nil && m.Get(100001).v == 7, "c15.par.concurrent_insert_survives_resize")
		for _, k := range ks[:pre] {
			vAssert(m.Get(k) != nil && m.Get(k).v == k+1, "c15.par.nothing_lost_across_resize")
		}
		vAssert(len(m.table.Load().buckets) == 2*len(t0.buckets), "c15.par.grew_once")
	case 3: // Range || Compute: a key present throughout is yielded exactly once, none twice
		seen := map[int]int{}
		op := vChoice("writer", 2)
		vPar(func() { m.Range(func(n *zzNode) bool { seen[n.k]++; return true }) }, func() {
			if op == 0 {
				zzDel(m, ks[1])
			} else {
				zzPut(m, ks[pre], 9)
			}
		})
		for k, c := range seen {
			vAssert(c == 1, "c15.par.range_never_yields_a_key_twice")
			_ = k
		}
		vAssert(seen[ks[0]] == 1, "c15.par.range_yields_keys_present_throughout")
	}
	if vParam("canary") == 1 {
		vAssert(m.Size() == 0, "c15.par.canary")
	}
}

func init() { vRegister("ZZ_C15_SparseResize", ZZ_C15_SparseResize) }

// zzChainKeys returns, per bucket of root bucket 0's chain, the keys stored there.
func zzChainKeys(m *Map[int, int, *zzNode]) [][]int {
	t := m.table.Load()
	var out [][]int
	for b := &t.buckets[0]; b != nil; b = b.next.Load() {
		var ks []int
		for i := 0; i < nodesPerMapBucket; i++ {
			if p := b.nodes[i]; p != nil {
				ks = append(ks, (*zzNode)(p).k)
			}
		}
		out = append(out, ks)
	}
	return out
}

// ZZ_C15_SparseResize: nothing is lost across a resize of a table whose overflow chains have holes. `keys` keys collide
// in one root bucket (a chain of up to three buckets); then, per chain bucket, the engine chooses whether to delete none,
// some (all but the first) or all of its keys — deletes never unlink overflow buckets, so emptied buckets stay in the
// middle of the chain; then the table is grown, shrunk back or cleared through the real resize (serial copy; with
// parallel=1 the table is large enough for the copy to be split over goroutines, copyBucketWithDestLock), and the map
// oracle is compared (Get of every key, Size, Range).
func ZZ_C15_SparseResize() {
	size := 0
	if vParam("parallel") == 1 {
		size = 64 * nodesPerMapBucket // a 128-bucket table: large enough for the parallel copy
	}
	m := zzNewMap(size)
	nk := vParam("keys")
	ks := zzColliding(m, nk)
	model := map[int]int{}
	for _, k := range ks {
		zzPut(m, k, k+1)
		model[k] = k + 1
	}
	chain := zzChainKeys(m)
	vAssert(len(chain) == (nk+nodesPerMapBucket-1)/nodesPerMapBucket, "c15.sparse.chain_length")
	sc := ""
	for bi, bks := range chain {
		switch vChoice("hole", 3) {
		case 0:
			sc += "keep;"
		case 1:
			sc += "thin;"
			for _, k := range bks[1:] {
				zzDel(m, k)
				delete(model, k)
			}
		case 2:
			sc += "empty;"
			for _, k := range bks {
				zzDel(m, k)
				delete(model, k)
			}
		}
		_ = bi
	}
	hint := vChoice("resize", 2)
	hn := []string{"grow", "shrink"}
	vScenario(sc + hn[hint])
	zzAudit(m, model, ks, "c15.sparse.before")
	t0 := m.table.Load()
	switch hint {
	case 0:
		m.resize(t0, mapGrowHint)
		vAssert(len(m.table.Load().buckets) == 2*len(t0.buckets), "c15.sparse.grew")
	case 1:
		// grow first so that a shrink is possible, then shrink back (the shrink copies the sparse chains again if the
		// rehash left any; the growth already had to copy them)
		m.resize(t0, mapGrowHint)
		zzAudit(m, model, ks, "c15.sparse.after_grow")
		t1 := m.table.Load()
		m.resize(t1, mapShrinkHint)
	}
	zzAudit(m, model, ks, "c15.sparse.nothing_lost_across_resize")
}


// zzC15ParallelResize: a table of 128 buckets (large enough for the resize to split the copy over goroutines, the
// copyBucketWithDestLock path) is grown while another thread inserts a key into a bucket chain that is still empty:
// the insert either lands in the old table before its bucket is copied (and is copied), or waits for the resize and
// lands in the new table — it is never lost, and nothing else is.
// zzC15ShrinkVsInsert: a table that has grown once holds one key; its deletion leaves the table empty and triggers
// the shrink, while another thread inserts a key into a different bucket. The insert is never lost: afterwards the
// key is found, Size is 1 and Range yields it (the resize must wait for writers already inside their critical section).
func zzC15ShrinkVsInsert() {
	m := zzNewMap(0)
	t0 := m.table.Load()
	m.resize(t0, mapGrowHint)
	t1 := m.table.Load()
	vAssert(len(t1.buckets) == 2*len(t0.buckets), "c15.shrink.grew_first")
	last, fresh := 1, 100001
	zzPut(m, last, 11)
	applied := 0
	vPar(func() { zzDel(m, last) }, func() {
		m.Compute(fresh, func(old *zzNode) *zzNode { applied++; return &zzNode{fresh, 9} })
	})
	vAssert(applied == 1, "c15.shrink.update_function_exactly_once")
	n := m.Get(fresh)
	vAssert(n != nil && n.v == 9, "c15.shrink.concurrent_insert_survives_the_shrink")
	vAssert(m.Get(last) == nil, "c15.shrink.deleted_key_is_gone")
	vAssert(m.Size() == 1, "c15.shrink.size_equals_keys")
	cnt := 0
	m.Range(func(x *zzNode) bool { cnt++; return true })
	vAssert(cnt == 1, "c15.shrink.range_yields_every_key")
	if len(m.table.Load().buckets) == len(t0.buckets) {
		vReach("c15.shrink.table_shrank")
	}
}

func zzC15ParallelResize() {
	m := zzNewMap(64 * nodesPerMapBucket)
	t0 := m.table.Load()
	vAssert(len(t0.buckets) == 128, "c15.parresize.table_len")
	pre := []int{1, 2, 3}
	for _, k := range pre {
		zzPut(m, k, k+1)
	}
	newKey := 100001
	applied := 0
	vPar(func() {
		m.Compute(newKey, func(old *zzNode) *zzNode { applied++; return &zzNode{newKey, 9} })
	}, func() { m.resize(t0, mapGrowHint) })
	vAssert(applied == 1, "c15.parresize.update_function_exactly_once")
	vAssert(len(m.table.Load().buckets) == 256, "c15.parresize.grew")
	n := m.Get(newKey)
	vAssert(n != nil && n.v == 9, "c15.parresize.concurrent_insert_survives_the_resize")
	for _, k := range pre {
		vAssert(m.Get(k) != nil && m.Get(k).v == k+1, "c15.parresize.nothing_lost_across_resize")
	}
	vAssert(m.Size() == len(pre)+1, "c15.parresize.size_equals_keys")
	cnt := 0
	m.Range(func(x *zzNode) bool { cnt++; return true })
	vAssert(cnt == len(pre)+1, "c15.parresize.range_yields_every_key")
}
