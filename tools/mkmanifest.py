#!/usr/bin/env python3
"""Regenerates MANIFEST.json from tools/claims.json (claimed checks) and properties.jsonl."""
import json, os
here = os.path.dirname(os.path.abspath(__file__))
root = os.path.dirname(here)
props = [json.loads(l) for l in open(os.path.join(root, "properties.jsonl")) if l.strip()]
claims = json.load(open(os.path.join(here, "claims.json")))
checks, na = [], []
for p in props:
    pid = p["id"]
    c = claims["claimed"].get(pid)
    if c is None:
        na.append({"property_id": pid, "reason": claims["not_applicable"].get(pid, "not yet covered by a solver-based check in this tree; see DESIGN.md")})
        continue
    checks.append({
        "property_id": pid,
        "quick_cmd": f"./check.sh {pid} quick",
        "thorough_cmd": f"./check.sh {pid} thorough",
        "evidence_file": f"/verif/evidence/{pid}.json",
        "replay_cmd_template": "./bin/gosym replay {path}",
        "engine": "gosym",
        "level_claimed": {
            "category": "model_checking",
            "text": c["text"],
            "design_ref": c.get("design_ref", "DESIGN.md section 7 " + pid),
        },
        "level_note": c["note"],
        "technique": c.get("technique", "bounded symbolic execution of go/ssa of the real functions, SMT (z3) decides every branch and assertion; counterexamples replayed natively"),
    })
m = {
    "version": 1,
    "setup_cmd": "./build.sh",
    "hooks": {
        "guard": "verif",
        "enable": "no hooks in /repo: harnesses are in-package overlay files (/verif/harness/pkg) injected through go/packages Overlay and go test -overlay",
        "baseline_off_cmd": claims["baseline_off_cmd"],
        "source_commits": [],
        "add_only": True,
    },
    "engines": [{
        "name": "gosym",
        "path": "/verif/engine",
        "serves_properties": sorted(claims["claimed"].keys()),
        "kind_free_text": "symbolic executor for Go SSA (golang.org/x/tools/go/ssa) written for this task: re-execution forking, guarded-set pointers, SMT-LIB2 to z3 5.1.0, cross-checked with z3 4.8.12 and cvc5; native replay via go test -overlay",
    }],
    "checks": checks,
    "not_applicable": na,
    "notes": claims.get("notes", ""),
}
json.dump(m, open(os.path.join(root, "MANIFEST.json"), "w"), indent=1)
print("checks:", [c["property_id"] for c in checks], "n/a:", [n["property_id"] for n in na])
