#!/bin/bash
# usage: tools/seedtest.sh <ID> <demo path relative to worktree> [check ids...]
# Validates a seeded change produced in /tmp/seed/<ID>, stores it under /verif/seeded/<ID>, runs the checks against it.
set -u
ID=$1; DEMO=$2; shift 2; CHECKS="${*:-$ID}"
W=/tmp/seed/$ID
export PATH=/opt/veriftools/go1.26.8/bin:$PATH GOTOOLCHAIN=local GOFLAGS=-mod=mod GOPROXY=off GOSUMDB=off
cd $W || exit 2
PKG=./$(dirname $DEMO)
echo "== demo WITH change"; timeout 300 go test -vet=off -count=1 -timeout 200s -run 'TestSeedDemo$' $PKG > /tmp/seed/$ID.with.log 2>&1; WITH=$?; tail -3 /tmp/seed/$ID.with.log
git stash -q
echo "== demo WITHOUT change"; timeout 300 go test -vet=off -count=1 -timeout 200s -run 'TestSeedDemo$' $PKG > /tmp/seed/$ID.without.log 2>&1; WITHOUT=$?; tail -2 /tmp/seed/$ID.without.log
git stash pop -q
echo "== existing suite WITH change (demo skipped)"; timeout 900 go test -vet=off -count=1 -timeout 300s -skip 'TestSeedDemo' . ./internal/... ./stats > /tmp/seed/$ID.suite.log 2>&1; SUITE=$?; grep -v "^ok\|no test files" /tmp/seed/$ID.suite.log | tail -5
echo "with=$WITH without=$WITHOUT suite=$SUITE"
mkdir -p /verif/seeded/$ID
cp patch.diff /verif/seeded/$ID/patch.diff
cp $DEMO /verif/seeded/$ID/$(basename $DEMO)
[ -f NOTES.md ] && cp NOTES.md /verif/seeded/$ID/NOTES.md
cd /repo && git apply /verif/seeded/$ID/patch.diff || { echo "patch does not apply to /repo"; exit 2; }
RES=""
for c in $CHECKS; do
  echo "== check $c against the seeded change"
  (cd /verif && timeout 1800 ./check.sh $c quick > /tmp/seed/$ID.check.$c.log 2>&1); rc=$?
  grep "VIOLATION\|UNDECIDED\|^OK" /tmp/seed/$ID.check.$c.log | cut -c1-260 | head -6
  RES="$RES $c=$rc"
done
cd /repo && git checkout -- . && git status --short | head -3
echo "RESULT $ID demo_with=$WITH demo_without=$WITHOUT suite=$SUITE checks:$RES"
