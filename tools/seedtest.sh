#!/bin/bash
# usage: tools/seedtest.sh <NAME> <demo path relative to worktree> [check ids...]
# NAME = property id plus an optional round suffix (C04, C04b, ...). Validates a seeded change produced in
# /tmp/seed/<NAME>, stores it under /verif/seeded/<NAME>, runs the quick checks (default: the property's) against it.
set -u
NAME=$1; DEMO=$2; shift 2
ID=${NAME:0:3}
CHECKS="${*:-$ID}"
W=/tmp/seed/$NAME
export PATH=/opt/veriftools/go1.26.8/bin:$PATH GOTOOLCHAIN=local GOFLAGS=-mod=mod GOPROXY=off GOSUMDB=off
cd $W || exit 2
PKG=./$(dirname $DEMO)
# the worktree must contain exactly patch.diff on top of HEAD (agents' stashes crossed once)
git diff -- . ':!zz_seed_demo_test.go' > /tmp/seed/$NAME.cur.diff
git checkout -q -- . && git apply patch.diff || { echo "patch.diff does not apply to a clean checkout"; exit 2; }
echo "== demo WITH change"; timeout 300 go test -vet=off -count=1 -timeout 200s -run 'TestSeedDemo$' $PKG > /tmp/seed/$NAME.with.log 2>&1; WITH=$?; tail -3 /tmp/seed/$NAME.with.log
git apply -R patch.diff
echo "== demo WITHOUT change"; timeout 300 go test -vet=off -count=1 -timeout 200s -run 'TestSeedDemo$' $PKG > /tmp/seed/$NAME.without.log 2>&1; WITHOUT=$?; tail -2 /tmp/seed/$NAME.without.log
git apply patch.diff
echo "== existing suite WITH change (demo skipped)"; timeout 900 go test -vet=off -count=1 -timeout 300s -skip 'TestSeedDemo' . ./internal/... ./stats > /tmp/seed/$NAME.suite.log 2>&1; SUITE=$?; grep -v "^ok\|no test files" /tmp/seed/$NAME.suite.log | tail -5
echo "with=$WITH without=$WITHOUT suite=$SUITE"
mkdir -p /verif/seeded/$NAME
cp patch.diff /verif/seeded/$NAME/patch.diff
cp $DEMO /verif/seeded/$NAME/$(basename $DEMO)
[ -f NOTES.md ] && cp NOTES.md /verif/seeded/$NAME/NOTES.md
cat > /verif/seeded/$NAME/meta.json <<M
{
 "property": "$ID",
 "source": "independent sub-agent given only the property text and a scratch worktree (round ${NAME:3})",
 "patch": "patch.diff",
 "demonstration": ["$(basename $DEMO)"],
 "demo_package_dir": "$(dirname $DEMO)",
 "validated": "tools/seedtest.sh: demo with the patch exit=$WITH (must fail), without exit=$WITHOUT (must pass), existing suite with the patch exit=$SUITE (must pass)",
 "needs_to_manifest": "see NOTES.md"
}
M
# the checks run against the scratch worktree itself (VERIF_REPO), with their evidence and replays kept out of /verif
RES=""
for c in $CHECKS; do
  echo "== check $c against the seeded change"
  (cd /verif && VERIF_REPO=$W VERIF_EVIDENCE_DIR=/tmp/seed/$NAME.evidence VERIF_REPLAYS_DIR=/tmp/seed/$NAME.replays timeout 2400 ./check.sh $c quick > /tmp/seed/$NAME.check.$c.log 2>&1); rc=$?
  grep "VIOLATION\|UNDECIDED\|^OK" /tmp/seed/$NAME.check.$c.log | cut -c1-260 | head -6
  RES="$RES $c=$rc"
done
echo "RESULT $NAME demo_with=$WITH demo_without=$WITHOUT suite=$SUITE checks:$RES"
