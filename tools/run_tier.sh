#!/bin/bash
# usage: tools/run_tier.sh <quick|thorough> ID...   (sequential; summary lines to logs/<tier>_summary.txt)
tier=$1; shift
cd /verif
for id in "$@"; do
  s=$(date +%s)
  ./check.sh $id $tier > logs/${tier}_$id.log 2>&1; rc=$?
  e=$(date +%s)
  echo "$id tier=$tier exit=$rc secs=$((e-s)) $(grep -c '^VIOLATION' logs/${tier}_$id.log) violations; $(grep '^UNDECIDED' logs/${tier}_$id.log | head -2 | cut -c1-160 | tr '\n' ' ')" | tee -a logs/${tier}_summary.txt
done
