#!/bin/bash
# usage (from a /verif checkout or a vp-run snapshot): tools/thorough_all.sh [ID...]   — thorough tier, sequential, niced; summary on stdout
ids="${*:-C11 C12 C14 C03 C08 C16 C17 C10 C15 C18 C20 C07 C02 C04 C19 C05 C13 C09 C06 C01}"
[ -x bin/gosym ] || ./build.sh || exit 2
mkdir -p logs
for id in $ids; do
  s=$(date +%s)
  VERIF_DIR=$PWD nice -n 10 ./bin/gosym check $id --tier thorough > logs/thorough_$id.log 2>&1; rc=$?
  e=$(date +%s)
  echo "$id thorough exit=$rc secs=$((e-s)) $(grep -c '^VIOLATION' logs/thorough_$id.log) violations; $(grep '^UNDECIDED\|^KNOWN' logs/thorough_$id.log | head -3 | cut -c1-160 | tr '\n' ' ')"
done
