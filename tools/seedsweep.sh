#!/bin/bash
# usage: tools/seedsweep.sh [-j N] [NAME...]   (default: every directory under /verif/seeded)
# For each seeded change: scratch worktree of /repo HEAD under /tmp/seedsweep/<NAME>, patch applied, the quick check of
# its property run against it (VERIF_REPO; evidence and replays kept out of /verif), worktree removed.
# Result lines go to /verif/logs/seedsweep.txt: "<NAME> <check> exit=<rc> <first violation label>".
J=3
if [ "$1" = "-j" ]; then J=$2; shift 2; fi
cd /verif
mkdir -p logs /tmp/seedsweep
NAMES="$*"
[ -z "$NAMES" ] && NAMES=$(ls seeded)
: > logs/seedsweep.txt
one() {
  name=$1; id=${name:0:3}
  checks=$id
  [ -f seeded/$name/checks ] && checks=$(cat seeded/$name/checks)
  W=/tmp/seedsweep/$name
  git -C /repo worktree remove --force $W >/dev/null 2>&1
  git -C /repo worktree add --detach -q $W HEAD || { echo "$name worktree failed" >> logs/seedsweep.txt; return; }
  if ! git -C $W apply /verif/seeded/$name/patch.diff; then echo "$name patch does not apply" >> logs/seedsweep.txt; git -C /repo worktree remove --force $W; return; fi
  for c in $checks; do
    VERIF_REPO=$W VERIF_EVIDENCE_DIR=/tmp/seedsweep/$name.ev VERIF_REPLAYS_DIR=/tmp/seedsweep/$name.replays timeout 3000 ./check.sh $c quick > /tmp/seedsweep/$name.$c.log 2>&1; rc=$?
    lab=$(grep -m1 "^VIOLATION" /tmp/seedsweep/$name.$c.log | sed 's/.*label=\([^ ]*\).*replay-mode=\([a-z-]*\).*/\1 [\2]/; s/.*label=\([^ ]*\) .*/\1/')
    und=$(grep -m1 "^UNDECIDED" /tmp/seedsweep/$name.$c.log | cut -c1-120)
    echo "$name $c exit=$rc $lab $und" >> logs/seedsweep.txt
  done
  git -C /repo worktree remove --force $W
  rm -rf /tmp/seedsweep/$name.ev /tmp/seedsweep/$name.replays
}
for n in $NAMES; do
  while [ $(jobs -r | wc -l) -ge $J ]; do sleep 2; done
  one $n &
done
wait
sort logs/seedsweep.txt
