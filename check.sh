#!/bin/sh
# usage: ./check.sh <property id> <quick|thorough>
# exit 0 = held on everything explored; 1 = VIOLATION line printed; 2 = undecided (never success)
cd "$(dirname "$0")"
[ -x bin/gosym ] || ./build.sh || exit 2
exec ./bin/gosym check "$1" --tier "${2:-quick}"
