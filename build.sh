#!/bin/sh
# Builds the engine from files on disk only (vendored x/tools), offline.
set -e
cd "$(dirname "$0")/engine"
export PATH=/opt/veriftools/go1.26.8/bin:$PATH GOTOOLCHAIN=local GOFLAGS=-mod=vendor GOPROXY=off GOSUMDB=off
mkdir -p ../bin
go build -o ../bin/gosym .
